#!/usr/bin/env python3
"""Driver for the sts deterministic-simulation checks.

  runner.py <PROP> quick|thorough      run the check, write evidence/<PROP>.json
  runner.py <PROP> --replay <file>     re-execute a replay file in a fresh process
  runner.py build                      only build the simulator (setup)
  runner.py selftest-determinism [quick|thorough]

Exit 0: property held on everything explored (known findings are printed).
Exit 1: VIOLATION line printed.  Exit 2: harness/build trouble (never a verdict).
"""
import json, os, shutil, subprocess, sys, tempfile, time, hashlib, glob

VERIF = os.path.dirname(os.path.abspath(__file__))
# registered commands always build from /repo; VERIF_REPO is a development aid
# (seeded changes are tried in scratch worktrees without touching /repo)
REPO = os.environ.get("VERIF_REPO", "/repo")
GO = "go1.26.8"
ENV = dict(os.environ, GOFLAGS="-mod=mod", GOPROXY="off", GOSUMDB="off", GOTOOLCHAIN="local",
           PATH="/opt/veriftools/go1.26.8/bin:" + os.environ.get("PATH", ""))
PKGS = ["./client", "./stage", "./cache", "./http", "./queue", "./store", "./log", "./payload", "./fileutil"]

sys.path.insert(0, VERIF)
from props_meta import PROPS  # per-property tiers, level, rule text


def log(*a):
    print(*a, file=sys.stderr, flush=True)


def trouble(msg):
    log("TROUBLE:", msg)
    sys.exit(2)


def build(workdir):
    """Build sim.test from /repo's current working tree + /verif/sim via overlay."""
    t0 = time.time()
    bindir = os.path.join(VERIF, "bin")
    os.makedirs(bindir, exist_ok=True)
    mo = os.path.join(bindir, "maporder")
    src = os.path.join(VERIF, "tools/maporder/main.go")
    if not os.path.exists(mo) or os.path.getmtime(mo) < os.path.getmtime(src):
        r = subprocess.run([GO, "build", "-o", mo, "."], cwd=os.path.join(VERIF, "tools/maporder"), env=ENV,
                           capture_output=True, text=True)
        if r.returncode != 0:
            trouble("maporder build failed:\n" + r.stderr)
    rew = os.path.join(workdir, "rewritten")
    os.makedirs(rew, exist_ok=True)
    r = subprocess.run([mo, REPO, rew] + PKGS, cwd=REPO, env=ENV, capture_output=True, text=True)
    if r.returncode != 0:
        trouble("maporder failed:\n" + r.stderr)
    replace = {}
    for line in r.stdout.splitlines():
        orig, copy = line.split("\t")
        replace[orig] = copy
    nsites = sum(1 for l in r.stderr.splitlines() if "maporder: site" in l)
    r0_stderr = r.stderr
    for f in sorted(glob.glob(os.path.join(VERIF, "sim", "*.go"))):
        base = os.path.basename(f)
        if base.endswith("_test.go"):
            base = base[:-len("_test.go")] + ".go"
        replace[os.path.join(REPO, "main", "zz_verif_" + base[:-3] + "_test.go")] = f
    replace[os.path.join(REPO, "fileutil", "zz_verif_ordered.go")] = os.path.join(VERIF, "sim", "ordered.go.src")
    overlay = os.path.join(workdir, "overlay.json")
    json.dump({"Replace": replace}, open(overlay, "w"), indent=1)
    modfile = os.path.join(workdir, "go.mod")
    mod = open(os.path.join(REPO, "go.mod")).read()
    mod += "\nrequire github.com/anishathalye/porcupine v1.3.0\n"
    open(modfile, "w").write(mod)
    shutil.copy(os.path.join(REPO, "go.sum"), os.path.join(workdir, "go.sum"))
    sums = os.path.join(VERIF, "extra.sum")
    if os.path.exists(sums):
        with open(os.path.join(workdir, "go.sum"), "a") as f:
            f.write(open(sums).read())
    binp = os.path.join(workdir, "sim.test")
    cmd = [GO, "test", "-c", "-tags", "verif", "-overlay", overlay, "-modfile", modfile, "-o", binp, "./main"]
    r = subprocess.run(cmd, cwd=REPO, env=ENV, capture_output=True, text=True)
    if r.returncode != 0 or not os.path.exists(binp):
        trouble("simulator build failed (cmd: %s):\n%s\n%s" % (" ".join(cmd), r.stdout, r.stderr))
    nlock = sum(1 for l in r0_stderr.splitlines() if "maporder: lock site" in l)
    log("build ok in %.1fs (%d map-range sites rewritten, %d lock sites given a scheduling point)" % (time.time() - t0, nsites, nlock))
    return binp


def load_known():
    p = os.path.join(VERIF, "known_findings.json")
    if not os.path.exists(p):
        return []
    return json.load(open(p)).get("findings", [])


def match_known(known, prop, v):
    """A violation is known only if property, oracle and the specific key match."""
    for k in known:
        if k.get("status") != "open" or k["property"] != prop or k["oracle"] != v["oracle"]:
            continue
        needle = k.get("detail_contains", "")
        if needle == "" or needle in v.get("detail", ""):
            return k
    return None


def run_workers(binp, prop, tier, seed, runs, budget_s, workdir, nworkers, extra=None, replay_dir=None):
    procs = []
    outs = []
    env = dict(ENV)
    env["VERIF_REPLAY_DIR"] = replay_dir or os.environ.get("VERIF_REPLAY_DIR") or os.path.join(VERIF, "replays")
    ws = os.path.join(workdir, "ws")
    for i in range(nworkers):
        out = os.path.join(workdir, "out-%d.jsonl" % i)
        outs.append(out)
        cmd = [binp, "-test.run", "^TestSim$", "-test.timeout", "0", "-sim.prop", prop, "-sim.tier", tier, "-sim.seed", str(seed),
               "-sim.shard", "%d/%d" % (i, nworkers), "-sim.runs", str(runs), "-sim.out", out, "-sim.ws", ws,
               "-sim.budget", "%ds" % budget_s] + (extra or [])
        errf = open(os.path.join(workdir, "err-%d.txt" % i), "w")
        procs.append((subprocess.Popen(cmd, cwd=workdir, env=env, stdout=errf, stderr=errf), errf))
    dead = []
    hard = time.time() + budget_s * 2 + 180
    for i, (p, errf) in enumerate(procs):
        try:
            rc = p.wait(timeout=max(1, hard - time.time()))
        except subprocess.TimeoutExpired:
            p.kill()
            rc = -9
        errf.close()
        if rc != 0:
            dead.append((i, rc))
    results = []
    for out in outs:
        if os.path.exists(out):
            for line in open(out):
                line = line.strip()
                if line:
                    try:
                        results.append(json.loads(line))
                    except Exception:
                        pass
    return results, dead


def classify_dead(workdir, i):
    """Return ('sut-panic', text) if the worker died in sts code, else ('harness', text)."""
    txt = open(os.path.join(workdir, "err-%d.txt" % i)).read()
    tail = txt[-6000:]
    if "panic:" in txt or "fatal error:" in txt:
        # first goroutine stack after the panic line
        idx = txt.find("panic:")
        if idx < 0:
            idx = txt.find("fatal error:")
        seg = txt[idx:idx + 4000]
        frames = [l for l in seg.splitlines() if l.startswith("\t/") or l.startswith("\t")]
        files = [l.strip().split(":")[0] for l in frames]
        files = [f for f in files if "/go1.26.8/" not in f and "/opt/veriftools/" not in f]
        if "found pointer to free object" in seg or "found bad pointer in Go heap" in seg:
            # the garbage collector's own consistency check (about one process in
            # some thousands with this toolchain, DESIGN section 10): the stack is
            # that of whoever happened to be allocating, not of a culprit
            return "runtime", seg
        if files and files[0].startswith(REPO + "/") and "zz_verif_" not in files[0]:
            return "sut-panic", seg
        if "found pointer to free object" in txt or "fatal error:" in txt and "sync:" not in txt and not files:
            return "runtime", seg
    return "harness", tail


def main():
    if len(sys.argv) < 2:
        print(__doc__)
        sys.exit(2)
    prop = sys.argv[1]
    workdir = tempfile.mkdtemp(prefix="verif-", dir="/dev/shm")
    try:
        rc = real_main(prop, workdir)
    finally:
        shutil.rmtree(workdir, ignore_errors=True)
    sys.exit(rc)


def real_main(prop, workdir):
    if prop == "build":
        build(workdir)
        return 0
    if len(sys.argv) >= 4 and sys.argv[2] == "--replay":
        binp = build(workdir)
        cmd = [binp, "-test.run", "^TestSim$", "-test.timeout", "0", "-sim.replay", os.path.abspath(sys.argv[3]), "-sim.ws", os.path.join(workdir, "ws")]
        if "--log" in sys.argv:
            cmd.append("-sim.log")
        r = subprocess.run(cmd, cwd=workdir, env=ENV, capture_output=True, text=True)
        sys.stdout.write(r.stdout)
        sys.stderr.write(r.stderr[-4000:])
        if "VIOLATION property=" in r.stdout:
            return 1
        if '"log_identical": false' in r.stdout:
            log("replay diverged from the recorded decision log")
            return 2
        return 0 if r.returncode == 0 else 2
    tier = sys.argv[2] if len(sys.argv) > 2 else os.environ.get("VERIF_TIER", "quick")
    if tier not in ("quick", "thorough"):
        trouble("tier must be quick or thorough")
    seed = int(os.environ.get("VERIF_SEED", "20260922"))
    if prop == "selftest-determinism":
        import selftest
        return selftest.run(build(workdir), workdir, tier, seed)
    if prop not in PROPS:
        trouble("unknown property " + prop)
    meta = PROPS[prop]
    print("VERIF_SEED=%d property=%s tier=%s" % (seed, prop, tier), flush=True)
    t0 = time.time()
    binp = build(workdir)
    runs, budget = meta[tier]
    nworkers = int(os.environ.get("VERIF_WORKERS", "16"))
    known = load_known()
    # known findings are reported from the run that met them, without minimising
    # (only those without a detail filter: the worker cannot apply one)
    ko = sorted(set(k["oracle"] for k in known if k.get("status") == "open" and k["property"] == prop and not k.get("detail_contains")))
    extra = ["-sim.known", ",".join(ko)] if ko else []
    extra += ["-sim.minfor", "40s" if tier == "quick" else "240s"]
    results, dead = run_workers(binp, prop, tier, seed, runs, budget, workdir, nworkers, extra=extra)
    violations, knowns, troubles = [], [], []
    for (i, rc) in dead:
        kind, text = classify_dead(workdir, i)
        cur = os.path.join(workdir, "out-%d.jsonl.current" % i)
        if kind == "sut-panic" and os.path.exists(cur):
            rp = os.path.join(VERIF, "replays", "%s-sut-panic-%d.json" % (prop, seed))
            rf = json.load(open(cur))
            first = text.splitlines()[0] if text else "panic"
            rf["violation"] = {"prop": prop, "oracle": "sut-panic", "detail": text[:1500], "step": -1}
            rf["note"] = "the simulated process panicked inside sts code; replay re-executes the scenario"
            os.makedirs(os.path.dirname(rp), exist_ok=True)
            json.dump(rf, open(rp, "w"), indent=1)
            violations.append(({"prop": prop, "oracle": "sut-panic", "detail": first}, rp))
        elif kind == "runtime":
            log("worker %d died in the Go runtime (counted, its remaining runs are lost): %s" % (i, text.splitlines()[0] if text else ""))
        else:
            troubles.append("worker %d exited %s:\n%s" % (i, rc, text[-3000:]))
    for r in results:
        for t in r.get("trouble") or []:
            troubles.append("run %s seed %s: %s" % (r.get("index"), r.get("seed"), t[:3000]))
        for v in r.get("viol") or []:
            if v["prop"] != prop:
                continue
            k = match_known(known, prop, v)
            if k:
                knowns.append((k, v))
            else:
                rp = r.get("replay") or ""
                if r.get("replay_oracle") and r.get("replay_oracle") != v["oracle"]:
                    rp = ""
                violations.append((v, rp))
    write_evidence(prop, tier, seed, meta, results, dead, violations, knowns, time.time() - t0)
    seen = set()
    for k, v in knowns:
        if k["id"] in seen:
            continue
        seen.add(k["id"])
        print("KNOWN-FINDING: property=%s %s" % (prop, k["what"]))
    if troubles:
        for t in troubles[:5]:
            log("TROUBLE:", t)
        if not violations:
            return 2
    if violations:
        shown = set()
        # prefer an occurrence that has a replay file
        violations.sort(key=lambda x: (x[0]["oracle"], x[1] == ""))
        for v, rp in violations:
            key = v["oracle"]
            if key in shown:
                continue
            shown.add(key)
            print("violation oracle=%s: %s" % (v["oracle"], v.get("detail", "")[:600]))
            print("VIOLATION property=%s replay=%s" % (prop, rp))
        return 1
    n = len(results)
    print("OK property=%s tier=%s runs=%d wall=%.0fs" % (prop, tier, n, time.time() - t0))
    return 0


def write_evidence(prop, tier, seed, meta, results, dead, violations, knowns, wall):
    stats = {}
    hashes = set()
    nontrivial = set()
    fake = 0.0
    steps = 0
    ff = 0
    inconcl = 0
    samples = []
    for r in results:
        for k, v in (r.get("stats") or {}).items():
            stats[k] = stats.get(k, 0) + v
        hashes.add(r.get("dhash"))
        st = r.get("stats") or {}
        if meta["nontrivial"](r, st):
            nontrivial.add(r.get("dhash"))
        fake += r.get("fake_s", 0)
        steps += r.get("steps", 0)
        ff += 1 if r.get("fault_free") else 0
        inconcl += 1 if r.get("inconclusive") else 0
        if r.get("scenario") and len(samples) < 2:
            samples.append({"seed": r["seed"], "steps": r["steps"], "fake_s": r["fake_s"], "decision_log_hash": r["dhash"],
                            "scenario": r["scenario"]})
    if not samples and results:
        r = results[0]
        samples.append({"seed": r["seed"], "steps": r["steps"], "fake_s": r["fake_s"], "decision_log_hash": r["dhash"]})
    faults = {k: v for k, v in stats.items() if k.startswith("fault:") or k.startswith("crash:") or k.startswith("env:")}
    probes = {k: v for k, v in stats.items() if k.startswith("log:") or k.startswith("probe:") or k.startswith("poll:") or k.startswith("status:")}
    gates = {k: v for k, v in stats.items() if k.startswith("gate:") or k.startswith("h1:") or k.startswith("act:")}
    n = len(results)
    ev = {
        "property_id": prop, "tier": tier, "seed": seed, "level": meta["level"],
        "coverage": {
            "evaluations": n,
            "distinct_nontrivial": len(nontrivial),
            "rule": meta["rule"],
            "samples": samples or [{"note": "no run completed"}],
            "exhaustive": False,
            "runs_per_hour": int(n / wall * 3600) if wall > 0 else 0,
            "simulated_time_s": round(fake, 1),
            "scheduler_steps": steps,
            "distinct_decision_logs": len(hashes),
            "fault_free_runs": ff, "faulty_runs": n - ff,
            "inconclusive_runs": inconcl,
            "faults_fired": faults, "reach_probes": probes, "gates_and_points": gates,
            "requests": {k: v for k, v in stats.items() if k.startswith("req:") or k.startswith("net:")},
            "arrivals": stats.get("arrival", 0),
            "workers_died": len(dead),
            "components": meta["components"],
            "known_findings_hit": sorted({k["id"] for k, _ in knowns}),
        },
        "assumptions": meta["assumptions"],
        "wall_s": round(wall, 1),
        "violations": len(violations),
    }
    # development runs against a scratch worktree must not replace the evidence of /repo
    evdir = os.path.join(VERIF, "evidence") if REPO == "/repo" else os.environ.get("VERIF_EVIDENCE_DIR", "/tmp/verif-evidence-scratch")
    os.makedirs(evdir, exist_ok=True)
    json.dump(ev, open(os.path.join(evdir, prop + ".json"), "w"), indent=1)


if __name__ == "__main__":
    main()
