#!/bin/bash
# development helper: every thorough check for the given seed, one line per check
cd "$(dirname "$0")"
seed=${1:-1}
for p in $(python3 -c "import json;print(' '.join(c['property_id'] for c in json.load(open('MANIFEST.json'))['checks']))"); do
  out=$(VERIF_SEED=$seed ./check $p thorough 2>&1); rc=$?
  echo "seed=$seed $p thorough exit=$rc $(echo "$out" | grep -c '^VIOLATION') violations $(echo "$out" | grep '^OK' | cut -c1-80)"
  echo "$out" | grep "^violation\|^VIOLATION\|TROUBLE\|trouble" | cut -c1-400
done
