#!/bin/bash
# development helper: run one (property, run index) N times under different
# GOMAXPROCS and report how many distinct decision logs came out.
# usage: detrepro.sh PROP IDX [N] [SEED]
prop=$1; idx=$2; n=${3:-12}; seed=${4:-20260922}
cd /dev/shm/verif-dev || exit 2
rm -f det-$prop-*.log
(
for i in $(seq 1 $n); do
  GOMAXPROCS=$((1+(i*5)%16)) ./sim.test -test.run '^TestSim$' -sim.prop $prop -sim.seed $seed -sim.runs $((idx+1)) -sim.shard $idx/$((idx+1)) \
    -sim.min=false -sim.log -sim.ws /dev/shm/verif-ws-det$i > det-$prop-$i.raw 2>&1 &
done
wait
) 2>/dev/null
for i in $(seq 1 $n); do
  grep -v '^{' det-$prop-$i.raw | grep -v "^ok\|^PASS\|^---\|^===" > det-$prop-$i.log
  rm -f det-$prop-$i.raw
done
md5sum det-$prop-*.log | awk '{print $1}' | sort | uniq -c
rm -rf /dev/shm/verif-ws-det*
