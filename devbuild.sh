#!/bin/bash
# development helper: build the simulator into /dev/shm/verif-dev/sim.test
export GOFLAGS=-mod=mod GOPROXY=off GOSUMDB=off GOTOOLCHAIN=local PATH=/opt/veriftools/go1.26.8/bin:$PATH
mkdir -p /dev/shm/verif-dev
python3 - <<'PY'
import sys
sys.path.insert(0,'/verif')
import runner
runner.build('/dev/shm/verif-dev')
PY
