#!/bin/bash
# development helper: thorough tier for the listed checks (seed in $SEED, default 2)
cd "$(dirname "$0")"
seed=${SEED:-2}
for p in "$@"; do
  out=$(VERIF_SEED=$seed ./check $p thorough 2>&1); rc=$?
  echo "seed=$seed $p thorough exit=$rc $(echo "$out" | grep -c '^VIOLATION') violations $(echo "$out" | grep '^OK' | cut -c1-80)"
  echo "$out" | grep "^violation\|^VIOLATION\|TROUBLE\|trouble" | cut -c1-400
done
