package main

// Entry point of the simulator binary (a test binary of /repo's package main).

import (
	"bufio"
	"encoding/json"
	"flag"
	"fmt"
	nethttp "net/http"
	"os"
	"path/filepath"
	"runtime"
	"runtime/debug"
	"runtime/pprof"
	"sort"
	"strings"
	"testing"
	"testing/synctest"
	"time"

	"github.com/arm-doe/sts/fileutil"
	stshttp "github.com/arm-doe/sts/http"
	stslog "github.com/arm-doe/sts/log"
)

var (
	flagProp   = flag.String("sim.prop", "", "property id")
	flagTier   = flag.String("sim.tier", "quick", "quick|thorough")
	flagSeed   = flag.Uint64("sim.seed", 1, "VERIF_SEED")
	flagShard  = flag.String("sim.shard", "0/1", "i/n")
	flagRuns   = flag.Int("sim.runs", 10, "number of run indices (total across shards)")
	flagOut    = flag.String("sim.out", "", "jsonl output file")
	flagReplay = flag.String("sim.replay", "", "replay file")
	flagWS     = flag.String("sim.ws", "/dev/shm/verif-ws", "workspace root")
	flagLog    = flag.Bool("sim.log", false, "print decision log")
	flagBudget = flag.Duration("sim.budget", 0, "wall clock budget for this worker (0 = none)")
	flagMin    = flag.Bool("sim.min", true, "minimise violations")
	flagSUTLog = flag.Bool("sim.sutlog", false, "print SUT log messages")
	flagDump   = flag.Bool("sim.dump", false, "include the scenario in every result")
	flagKnown  = flag.String("sim.known", "", "comma separated oracle ids of known findings: reported, but not minimised")
	flagMinFor = flag.Duration("sim.minfor", 40*time.Second, "wall clock limit for minimising one violation")
)

type RunResult struct {
	Prop      string         `json:"prop"`
	Index     int            `json:"index"`
	Seed      uint64         `json:"seed"`
	Mode      string         `json:"mode"`
	Steps     int            `json:"steps"`
	FakeS     float64        `json:"fake_s"`
	WallMs    int64          `json:"wall_ms"`
	DHash     string         `json:"dhash"`
	Viol      []Violation    `json:"viol,omitempty"`
	Trouble   []string       `json:"trouble,omitempty"`
	Stats     map[string]int `json:"stats"`
	Settled   bool           `json:"settled"`
	Unsettled string         `json:"unsettled,omitempty"`
	Inconcl   bool           `json:"inconclusive,omitempty"`
	FaultFree bool           `json:"fault_free"`
	Sub       string         `json:"sub,omitempty"`
	Scenario  *Scenario      `json:"scenario,omitempty"`
	Tape      []uint32       `json:"tape,omitempty"`
	DLog      []string       `json:"dlog,omitempty"`
	Sig       string         `json:"sig,omitempty"`
	Replay    string         `json:"replay,omitempty"`
	ReplayOracle string      `json:"replay_oracle,omitempty"`
	Minimised string         `json:"minimised,omitempty"`
}

type ReplayFile struct {
	Property  string      `json:"property"`
	Seed      uint64      `json:"seed"`
	Scenario  *Scenario   `json:"scenario"`
	Tape      []uint32    `json:"tape"`
	ZeroFrom  int         `json:"zero_from"`
	Violation Violation   `json:"violation"`
	DHash     string      `json:"dhash"`
	DLog      []string    `json:"decision_log"`
	Note      string      `json:"note,omitempty"`
}

func splitmix(x uint64) uint64 {
	x += 0x9e3779b97f4a7c15
	z := x
	z = (z ^ (z >> 30)) * 0xbf58476d1ce4e5b9
	z = (z ^ (z >> 27)) * 0x94d049bb133111eb
	return z ^ (z >> 31)
}

func runSeed(base uint64, prop string, idx int) uint64 {
	h := base
	for _, c := range []byte(prop) {
		h = splitmix(h ^ uint64(c))
	}
	return splitmix(h ^ uint64(idx)*0x100000001b3)
}

var wsCounter int

// execRun executes one scenario inside a fresh bubble.
func execRun(t *testing.T, sc *Scenario, fixed []uint32, zeroFrom int, keepLog bool) (res *RunResult) {
	wsCounter++
	ws := filepath.Join(*flagWS, fmt.Sprintf("p%d-%d", os.Getpid(), wsCounter))
	os.RemoveAll(ws)
	os.MkdirAll(ws, 0755)
	defer os.RemoveAll(ws)
	start := time.Now()
	res = &RunResult{Prop: sc.Prop, Seed: sc.Seed, Mode: sc.Mode, FaultFree: sc.FaultFree}
	// real-time watchdog (this goroutine is outside the bubble): a hung run is
	// harness trouble, never a verdict
	wd := time.AfterFunc(240*time.Second, func() {
		buf := make([]byte, 1<<21)
		n := runtime.Stack(buf, true)
		fmt.Fprintf(os.Stderr, "WATCHDOG: run seed=%d prop=%s hung\n%s\n", sc.Seed, sc.Prop, buf[:n])
		os.Exit(3)
	})
	defer wd.Stop()
	var sim *Sim
	func() {
		defer func() {
			if r := recover(); r != nil {
				msg := fmt.Sprint(r)
				if strings.Contains(msg, "deadlock") && strings.Contains(msg, "blocked goroutines remain") {
					return
				}
				res.Trouble = append(res.Trouble, "panic: "+msg+"\n"+string(debug.Stack()))
			}
		}()
		synctest.Test(t, func(t *testing.T) {
			sim = newSim(sc, ws, fixed, zeroFrom, keepLog)
			sim.run()
		})
	}()
	if sim != nil {
		sim.finishLog()
		res.Steps = sim.step
		res.FakeS = sim.fakeElapsed.Seconds()
		res.DHash = sim.dhash
		res.Viol = sim.viol
		res.Trouble = append(res.Trouble, sim.trouble...)
		res.Stats = sim.stats
		res.Settled = sim.settledFinal
		res.Inconcl = sim.inconclusive
		res.Tape = sim.tape.rec
		if !sim.settledFinal {
			res.Unsettled = sim.unsettledWhy
		}
		if keepLog {
			res.DLog = sim.dlog
		}
		// goroutines of sts that have no way to stop (a crashed server's Serve,
		// the stage's handlers, the log writer) stay behind, blocked for good in
		// the finished bubble, and with them everything they point to: cut the
		// simulation loose from them, or a long batch grows by megabytes a second
		for tp, owner := range liveTaps {
			if owner == sim {
				delete(liveTaps, tp)
			}
		}
		delete(agedOut, sim)
		delete(askedSinceAged, sim)
		stagesMu.Lock()
		delete(stagesOf, sim)
		stagesMu.Unlock()
		nt, ob, w := sim.net, sim.ob, sim.world
		*sim = Sim{}
		if nt != nil {
			*nt = simNet{}
		}
		if ob != nil {
			*ob = Obs{}
		}
		if w != nil {
			*w = World{}
		}
	}
	res.WallMs = time.Since(start).Milliseconds()
	return res
}

func newSim(sc *Scenario, ws string, fixed []uint32, zeroFrom int, keepLog bool) *Sim {
	s := &Sim{sc: sc, ws: ws, wake: make(chan struct{}, 1), stats: map[string]int{}, keepLog: keepLog,
		hot: map[string]bool{}, crashArmed: map[string]int{}, crashLabels: map[string]int{}, pointActions: map[string]func(*RecvNode, string){}}
	s.tape = newTape(splitmix(sc.Seed^0x7a9e), fixed, zeroFrom)
	s.net = newSimNet(s)
	s.ob = newObs(s)
	s.world = &World{s: s, outDir: filepath.Join(ws, "out")}
	for _, h := range sc.Hot {
		s.hot[h] = true
	}
	return s
}

type simLogger struct{ s *Sim }

var probePrefixes = []string{
	"Ignoring duplicate (receive)", "Part already received", "File already received", "Wait loop detected", "Removing wait loop",
	"Removed companion conflict", "Exceeded maximum polling attempts", "Transmission recovery:", "Building cache from logs",
	"Deleted stray partial", "Found previous in log", "Previous file not found in log", "Removing Stale Companion", "Failed validation",
	"Ignoring changed file in payload", "Ignoring changed failed file", "Ignoring missing failed file", "Removed orphaned companion",
	"Deleted aged file", "Not found--removing from cache", "Payload send failed", "Recovery request failed", "Poll request failed",
	"Payload recovery request failed", "Prune: removed empty directory", "Failed to calculate MD5", "File is now ignored",
	"Recovery failed", "Clamping future part time",
}

func (l *simLogger) note(level string, params []interface{}) {
	msg := fmt.Sprintln(params...)
	if *flagSUTLog {
		fmt.Fprintf(os.Stderr, "[sut %s %s] %s", level, time.Now().Format("15:04:05.000"), msg)
	}
	if level == "debug" {
		if strings.Contains(msg, "Removing Stale Companion") {
			l.s.stat("log:Removing Stale Companion")
		}
		// the receiver's in-memory record of delivered files: aged out / re-read from the log
		if strings.HasPrefix(msg, "(") {
			for _, m := range []struct {
				key string
				out bool
			}{{") Removed from cache: ", true}, {") Cached from log: ", false}} {
				if i := strings.Index(msg, m.key); i > 0 {
					l.s.noteCacheAged(strings.TrimSpace(msg[i+len(m.key):]), m.out)
				}
			}
		}
		return
	}
	if strings.Contains(msg, "Stage recovery complete") && len(params) > 0 {
		if src, ok := params[0].(string); ok && l.s.recv != nil {
			l.s.recv.recovering.Store(strings.Trim(src, "()"), false)
		}
	}
	for _, p := range probePrefixes {
		if strings.Contains(msg, p) {
			l.s.stat("log:" + p)
			break
		}
	}
	l.s.mu.Lock()
	l.s.sutLog = append(l.s.sutLog, fmt.Sprintf("%d %s %s", l.s.step, level, strings.TrimSpace(msg)))
	if len(l.s.sutLog) > 400 {
		l.s.sutLog = l.s.sutLog[200:]
	}
	l.s.mu.Unlock()
}
func (l *simLogger) Debug(p ...interface{}) { l.note("debug", p) }
func (l *simLogger) Info(p ...interface{})  { l.note("info", p) }
func (l *simLogger) Error(p ...interface{}) { l.note("error", p) }
func (l *simLogger) Recent(int) []string    { return nil }

// run is the body of the bubble.
func (s *Sim) run() {
	time.Sleep(time.Until(time.Unix(s.sc.EpochUnix, 0)))
	s.epoch = time.Now()
	s.lastFaultTime = s.epoch
	stslog.InitExternal(&simLogger{s})
	fileutil.VerifHook = s.hook
	stshttp.VerifListen = s.net.listen
	stshttp.DefaultServer = nil
	nethttp.DefaultTransport = &nethttp.Transport{DialContext: s.net.dial, DisableKeepAlives: true}
	switch s.sc.Mode {
	case "w1":
		s.runW1()
	case "w2":
		s.runW2()
	default:
		if f, ok := modes[s.sc.Mode]; ok {
			f(s)
		} else {
			s.troublef("unknown mode %s", s.sc.Mode)
		}
	}
	s.fakeElapsed = time.Since(s.epoch)
	s.mu.Lock()
	for k, v := range s.crashLabels {
		s.stats["cp:"+k] = v
	}
	for _, n := range s.sendAll {
		s.stats[fmt.Sprintf("actions:s%d", n.inc)] = n.actions
	}
	s.mu.Unlock()
	s.shutdownAll()
	synctest.Wait()
	s.killDeadGates()
	s.retireStages()
	for i := 0; i < 3; i++ {
		synctest.Wait()
		s.killDeadGates()
	}
}

var modes = map[string]func(*Sim){}

// generators per property: index -> scenarios
var generators = map[string]func(seed uint64, tier string) []*Scenario{}

type workItem struct {
	idx int
	sc  *Scenario
	sub string
}

func TestSim(t *testing.T) {
	if *flagProp == "" && *flagReplay == "" {
		t.Skip("simulator binary: use -sim.prop")
	}
	if *flagReplay != "" {
		doReplay(t)
		return
	}
	var shard, nshard int
	fmt.Sscanf(*flagShard, "%d/%d", &shard, &nshard)
	gen := generators[*flagProp]
	enum := enumerators[*flagProp]
	if gen == nil && enum == nil {
		fmt.Fprintf(os.Stderr, "no generator for %s\n", *flagProp)
		os.Exit(2)
	}
	var out *bufio.Writer
	if *flagOut != "" {
		f, err := os.Create(*flagOut)
		if err != nil {
			fmt.Fprintln(os.Stderr, err)
			os.Exit(2)
		}
		defer f.Close()
		out = bufio.NewWriter(f)
		defer out.Flush()
	}
	emit := func(r *RunResult) {
		b, _ := json.Marshal(r)
		if out != nil {
			out.Write(b)
			out.WriteByte('\n')
			out.Flush()
		} else {
			fmt.Println(string(b))
		}
	}
	deadline := time.Time{}
	if *flagBudget > 0 {
		deadline = time.Now().Add(*flagBudget)
	}
	curPath := *flagOut + ".current"
	nViol := 0
	seenOracle := map[string]bool{}
	for idx := shard; idx < *flagRuns; idx += nshard {
		if !deadline.IsZero() && time.Now().After(deadline) {
			break
		}
		seed := runSeed(*flagSeed, *flagProp, idx)
		var list []*Scenario
		if enum != nil {
			list = enum(seed, *flagTier, func(base *Scenario) *RunResult {
				r := execRun(t, base, nil, -1, false)
				r.Index = idx
				r.Sub = "base"
				if len(r.Viol) > 0 {
					handleViol(t, base, r, seenOracle, &nViol)
				}
				r.Scenario = nil
				if len(r.Viol) == 0 {
					r.Tape = nil
				}
				emit(r)
				return r
			})
		} else {
			list = gen(seed, *flagTier)
		}
		for si, sc := range list {
			if !deadline.IsZero() && time.Now().After(deadline) && si > 0 {
				break
			}
			if *flagOut != "" {
				b, _ := json.Marshal(&ReplayFile{Property: sc.Prop, Seed: sc.Seed, Scenario: sc, ZeroFrom: -1})
				os.WriteFile(curPath, b, 0644)
			}
			res := execRun(t, sc, nil, -1, *flagLog)
			res.Index = idx
			res.Sub = fmt.Sprint(si)
			if *flagLog {
				for _, l := range res.DLog {
					fmt.Println(l)
				}
				res.DLog = nil
			}
			if len(res.Viol) > 0 {
				handleViol(t, sc, res, seenOracle, &nViol)
			}
			if (idx < 2 && si == 0) || *flagDump {
				res.Scenario = sc // sample
			}
			if len(res.Viol) == 0 {
				res.Tape = nil
			}
			emit(res)
		}
	}
	os.Remove(curPath)
	if p := os.Getenv("VERIF_GODUMP"); p != "" { // development aid: what is left over from finished runs
		if f, err := os.Create(p); err == nil {
			pprof.Lookup("goroutine").WriteTo(f, 1)
			f.Close()
		}
	}
}

func sig(v Violation) string { return v.Prop + "/" + v.Oracle }

// handleViol: the first occurrence of each oracle on this worker is minimised
// and gets a replay file (at most 8 per worker).
func handleViol(t *testing.T, sc *Scenario, res *RunResult, seen map[string]bool, n *int) {
	pick := -1
	for i, v := range res.Viol {
		if !seen[v.Oracle] {
			pick = i
			break
		}
	}
	res.Sig = sig(res.Viol[0])
	if pick < 0 || *n >= 8 {
		return
	}
	*n++
	seen[res.Viol[pick].Oracle] = true
	res.Viol[0], res.Viol[pick] = res.Viol[pick], res.Viol[0]
	finishViolation(t, sc, res)
}

// finishViolation minimises, re-executes and writes the replay file.
func finishViolation(t *testing.T, sc *Scenario, res *RunResult) {
	v := res.Viol[0]
	others := append([]Violation(nil), res.Viol[1:]...)
	res.Sig = sig(v)
	best := sc
	tape := res.Tape
	zeroFrom := -1
	known := false
	for _, k := range strings.Split(*flagKnown, ",") {
		if k != "" && k == v.Oracle {
			known = true
		}
	}
	if *flagMin && !known {
		best, tape, zeroFrom = minimise(t, sc, res.Tape, v)
	}
	// final re-execution with full log
	r2 := execRun(t, best, tape, zeroFrom, true)
	same := false
	for _, v2 := range r2.Viol {
		if sig(v2) == sig(v) {
			same = true
			v = v2
		}
	}
	if !same {
		// minimisation lost it (must not happen: candidates are accepted only when it fires); fall back
		best, tape, zeroFrom = sc, res.Tape, -1
		r2 = execRun(t, best, tape, zeroFrom, true)
		for _, v2 := range r2.Viol {
			if sig(v2) == sig(v) {
				same = true
				v = v2
			}
		}
	}
	if !same {
		res.Trouble = append(res.Trouble, "violation did not reproduce on re-execution: "+sig(v))
		return
	}
	rf := &ReplayFile{Property: v.Prop, Seed: best.Seed, Scenario: best, Tape: r2.Tape, ZeroFrom: -1, Violation: v, DHash: r2.DHash, DLog: r2.DLog}
	dir := os.Getenv("VERIF_REPLAY_DIR")
	if dir == "" {
		dir = "/verif/replays"
	}
	os.MkdirAll(dir, 0755)
	name := fmt.Sprintf("%s-%s-%x.json", v.Prop, sanitize(v.Oracle), best.Seed)
	p := filepath.Join(dir, name)
	b, _ := json.MarshalIndent(rf, "", " ")
	os.WriteFile(p, b, 0644)
	res.Replay = p
	res.ReplayOracle = v.Oracle
	res.Viol = append([]Violation{v}, others...)
	res.Minimised = fmt.Sprintf("files %d->%d env %d->%d faults %d->%d steps %d->%d", len(sc.Files), len(best.Files), len(sc.Env), len(best.Env), len(sc.Faults), len(best.Faults), res.Steps, r2.Steps)
}

func sanitize(s string) string {
	var b strings.Builder
	for _, c := range s {
		if (c >= 'a' && c <= 'z') || (c >= 'A' && c <= 'Z') || (c >= '0' && c <= '9') || c == '-' {
			b.WriteRune(c)
		} else {
			b.WriteByte('_')
		}
	}
	return b.String()
}

func doReplay(t *testing.T) {
	b, err := os.ReadFile(*flagReplay)
	if err != nil {
		fmt.Fprintln(os.Stderr, err)
		os.Exit(2)
	}
	var rf ReplayFile
	if err := json.Unmarshal(b, &rf); err != nil {
		fmt.Fprintln(os.Stderr, err)
		os.Exit(2)
	}
	res := execRun(t, rf.Scenario, rf.Tape, rf.ZeroFrom, true)
	if *flagLog {
		for _, l := range res.DLog {
			fmt.Println(l)
		}
	}
	out := map[string]any{"replayed": *flagReplay, "dhash": res.DHash, "expected_dhash": rf.DHash, "violations": res.Viol, "trouble": res.Trouble, "steps": res.Steps}
	same := false
	for _, v := range res.Viol {
		if rf.Violation.Oracle != "" && sig(v) == sig(rf.Violation) {
			same = true
		}
	}
	out["reproduced"] = same
	out["log_identical"] = res.DHash == rf.DHash || rf.DHash == ""
	if !same && rf.DHash != "" && res.DHash != rf.DHash {
		// name the first differing line
		for i := 0; i < len(res.DLog) && i < len(rf.DLog); i++ {
			if res.DLog[i] != rf.DLog[i] {
				out["first_diff"] = fmt.Sprintf("line %d: got %q want %q", i, res.DLog[i], rf.DLog[i])
				break
			}
		}
	}
	jb, _ := json.MarshalIndent(out, "", " ")
	fmt.Println(string(jb))
	if same {
		fmt.Printf("VIOLATION property=%s replay=%s\n", rf.Property, *flagReplay)
	}
	keys := make([]string, 0)
	for k := range res.Stats {
		keys = append(keys, k)
	}
	sort.Strings(keys)
}
