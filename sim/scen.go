package main

// Scenario: everything that defines a run besides the tape. Generated from
// the run seed before the bubble starts; written into replay files.

import (
	"fmt"
	"math/rand/v2"
	"sort"
	"time"
)

type TagCfg struct {
	Pattern     string        `json:"pattern"` // "" = default tag
	Priority    int           `json:"priority"`
	Order       string        `json:"order"`
	Method      string        `json:"method,omitempty"`
	ChunkSize   int64         `json:"chunk,omitempty"`
	Delete      bool          `json:"delete"`
	DeleteSet   bool          `json:"delete_set"`
	DeleteDelay time.Duration `json:"delete_delay,omitempty"`
	LastDelay   time.Duration `json:"last_delay,omitempty"`
}

type RenameCfg struct {
	From string `json:"from"`
	To   string `json:"to"`
}

type SendCfg struct {
	Name          string        `json:"name"`
	Key           string        `json:"key,omitempty"`
	Threads       int           `json:"threads"`
	BinSize       int64         `json:"bin"`
	Compression   int           `json:"compress"`
	MinAge        time.Duration `json:"min_age"`
	ScanDelay     time.Duration `json:"scan_delay"`
	CacheAge      time.Duration `json:"cache_age"`
	Timeout       time.Duration `json:"timeout"`
	PollDelay     time.Duration `json:"poll_delay"`
	PollInterval  time.Duration `json:"poll_interval"`
	PollAttempts  int           `json:"poll_attempts"`
	PollMaxCount  int           `json:"poll_max"`
	ErrorBackoff  string        `json:"backoff"`
	GroupBy       string        `json:"group_by,omitempty"`
	IncludeHidden bool          `json:"hidden,omitempty"`
	Include       []string      `json:"include,omitempty"`
	Ignore        []string      `json:"ignore,omitempty"`
	OutFollow     bool          `json:"follow,omitempty"`
	Rename        []RenameCfg   `json:"rename,omitempty"`
	Tags          []TagCfg      `json:"tags"`
}

type RecvCfg struct {
	Compression int      `json:"compress"`
	Sources     []string `json:"sources,omitempty"`
	Keys        []string `json:"keys,omitempty"`
}

type CrashSpec struct {
	Label string `json:"label"`
	K     int    `json:"k"`
}

type Scenario struct {
	Prop       string         `json:"prop"`
	Mode       string         `json:"mode"`
	Seed       uint64         `json:"seed"`
	EpochUnix  int64          `json:"epoch"`
	Send       SendCfg        `json:"send"`
	Recv       RecvCfg        `json:"recv"`
	Files      []FileSpec     `json:"files"`
	Env        []*envAction   `json:"env,omitempty"`
	Faults     []FaultSpec    `json:"faults,omitempty"`
	RecvCrash  []CrashSpec    `json:"recv_crash,omitempty"`
	SendCrashAt    int        `json:"send_crash_at,omitempty"`
	SendCrashLabel string     `json:"send_crash_label,omitempty"`
	StopAt     int            `json:"stop_at,omitempty"`
	StopGraceful bool         `json:"stop_graceful,omitempty"`
	OneShot    bool           `json:"one_shot,omitempty"`
	Hot        []string       `json:"hot,omitempty"`
	NetFinePct int            `json:"net_fine_pct"`
	NetWindow  int            `json:"net_window"`
	TimeWeight int            `json:"time_weight"`
	LongDelayPct int          `json:"long_delay_pct,omitempty"`
	GateWeight map[string]int `json:"gate_weight,omitempty"`
	MaxSteps   int            `json:"max_steps"`
	MaxFake    time.Duration  `json:"max_fake"`
	DownTime   time.Duration  `json:"down_time"`
	Settle     time.Duration  `json:"settle"`
	FaultFree  bool           `json:"fault_free"`
	RecvErrAt  []int          `json:"recv_err_at,omitempty"` // k-th Receive call fails (missing .part)
	Extra      map[string]any `json:"extra,omitempty"`
	PeerFiles  []PeerFile     `json:"peer_files,omitempty"`
	Peer       []PeerOp       `json:"peer,omitempty"`
	MaxInFlight int           `json:"max_in_flight,omitempty"`
	LogOps     []LogOp        `json:"log_ops,omitempty"`
	LogTasks   int            `json:"log_tasks,omitempty"`
	QueueOps   []QueueOp      `json:"queue_ops,omitempty"`
	QueueTags  []TagCfg       `json:"queue_tags,omitempty"`
}

type gen struct {
	r *rand.Rand
}

func (g *gen) n(k int) int {
	if k <= 1 {
		return 0
	}
	return g.r.IntN(k)
}
func (g *gen) pick(xs ...int) int          { return xs[g.n(len(xs))] }
func (g *gen) pct(p int) bool              { return g.n(100) < p }
func (g *gen) dur(xs ...time.Duration) time.Duration { return xs[g.n(len(xs))] }
func (g *gen) u64() uint64                 { return g.r.Uint64() }

var epochs = []string{
	"2021-03-04T10:00:00Z", "2019-12-31T23:58:30Z", "2020-02-28T23:59:00Z", "2020-02-29T12:00:00Z",
	"2022-06-30T23:59:40Z", "2017-07-14T03:14:15Z", "2023-01-01T00:00:05Z", "2018-11-30T23:50:00Z",
}

// profile says which dimensions a property's runs vary.
type profile struct {
	maxFiles    int
	maxFaults   int
	faultKinds  []string
	orders      bool
	deletes     bool
	renames     bool
	envChanges  int // max number of source changes during the run
	fineNet     bool
	hotGates    bool
	recvCrashes int
	sendCrashes int
	corrupt     int
	recvErrs    int
	smallPoll   bool
	dirs        bool
}

var allNetFaults = []string{"cut_req_at", "cut_after_recorded", "drop_resp", "flip_req", "stall", "cut_resp_at"}

func baseNames(g *gen, n int, dirs bool) []string {
	stems := []string{"a", "b", "c", "sgp", "nsa"}
	seen := map[string]bool{}
	var out []string
	for len(out) < n {
		st := stems[g.n(len(stems))]
		name := fmt.Sprintf("%s.%02d.dat", st, g.n(40))
		if g.pct(15) {
			name = fmt.Sprintf("%s.%d", st, g.n(12)) // a.1 / a.10 style prefixes
		}
		if dirs && g.pct(40) {
			name = fmt.Sprintf("d%d/%s", g.n(3), name)
		}
		if seen[name] {
			continue
		}
		seen[name] = true
		out = append(out, name)
	}
	return out
}

func sizeNear(g *gen, bin int64) int64 {
	switch g.n(9) {
	case 0:
		return 1
	case 1:
		return bin - 1
	case 2:
		return bin
	case 3:
		return bin + 1
	case 4:
		return bin*2 + int64(g.n(7)) - 3
	case 5:
		return bin*3 + int64(g.n(100))
	case 6:
		return int64(1 + g.n(64))
	case 7:
		return bin/2 + int64(g.n(int(bin/2)+1))
	}
	return int64(1 + g.n(int(bin*4)))
}

func genW1(prop string, seed uint64, p profile) *Scenario {
	g := &gen{r: rand.New(rand.NewPCG(seed, 0x5ce9a410))}
	sc := &Scenario{Prop: prop, Mode: "w1", Seed: seed}
	ep, _ := time.Parse(time.RFC3339, epochs[g.n(len(epochs))])
	sc.EpochUnix = ep.Unix() + int64(g.n(50))
	bin := int64(g.pick(512, 1024, 4096, 16384, 65536))
	s := &sc.Send
	s.Name = "src1"
	s.Threads = 1 + g.n(4)
	s.BinSize = bin
	s.Compression = g.pick(0, 0, 1, 6, 9)
	s.MinAge = g.dur(0, 0, 5*time.Second, 15*time.Second)
	s.ScanDelay = g.dur(3*time.Second, 10*time.Second, 30*time.Second, 90*time.Second)
	s.CacheAge = g.dur(10*time.Minute, time.Hour, 24*time.Hour)
	s.Timeout = g.dur(20*time.Second, 60*time.Second, 5*time.Minute)
	s.PollDelay = g.dur(time.Millisecond, time.Second, 5*time.Second)
	s.PollInterval = g.dur(time.Millisecond, 2*time.Second, 10*time.Second, 30*time.Second)
	s.PollAttempts = g.pick(1, 2, 3, 10)
	s.PollMaxCount = g.pick(1, 2, 5, 1000)
	if !p.smallPoll && g.pct(60) {
		s.PollMaxCount = 1000
	}
	s.ErrorBackoff = []string{"0", "1", "1", "3"}[g.n(4)]
	if g.pct(30) {
		s.Key = "k3y"
		sc.Recv.Keys = []string{"other", "k3y"}
	}
	if g.pct(30) {
		sc.Recv.Sources = []string{"src1", "zz9"}
	}
	sc.Recv.Compression = g.pick(0, 0, 1, 9)
	// tags
	def := TagCfg{Pattern: "", Order: "fifo", Method: "http"}
	if p.orders {
		def.Order = []string{"fifo", "lifo", "none", "fifo", ""}[g.n(5)]
	}
	if p.deletes && g.pct(60) {
		def.Delete, def.DeleteSet = true, true
		if g.pct(30) {
			def.DeleteDelay = g.dur(20*time.Second, 5*time.Minute)
		}
	}
	if g.pct(35) {
		def.ChunkSize = g.int64pick(bin/4+1, bin/2, bin, bin*2, 100)
	}
	s.Tags = []TagCfg{def}
	if g.pct(45) {
		t := TagCfg{Pattern: `^(d\d/)?sgp`, Priority: g.n(3), Order: []string{"fifo", "lifo", "none", ""}[g.n(4)]}
		if p.deletes {
			t.DeleteSet = true
			t.Delete = g.pct(50)
		}
		if g.pct(30) {
			t.ChunkSize = g.int64pick(bin/3+1, bin, 64)
		}
		s.Tags = append(s.Tags, t)
	}
	if g.pct(25) {
		s.GroupBy = `^([a-z]+)\.`
		if p.dirs && g.pct(50) {
			s.GroupBy = `^(?:d\d/)?([a-z]+)\.`
		}
	}
	if p.renames && g.pct(35) {
		s.Rename = []RenameCfg{{From: `^(?P<dir>(?:d\d/)?)(?P<stem>[a-z]+)\.(?P<rest>.+)\.dat$`, To: `{{.dir}}{{.stem}}/{{.rest}}.bin`}}
	}
	// files
	nf := 1 + g.n(p.maxFiles)
	names := baseNames(g, nf, p.dirs)
	for _, nm := range names {
		sz := sizeNear(g, bin)
		if sz < 1 {
			sz = 1
		}
		age := int64(20 + g.n(5000))
		if g.pct(20) {
			age = 3600 // equal timestamps
		}
		sc.Files = append(sc.Files, FileSpec{Name: nm, Size: sz, Seed: g.u64(), Age: age})
	}
	if g.pct(20) && nf >= 2 {
		sc.Files[1].Size = sc.Files[0].Size // equal sizes
	}
	// environment changes
	if p.envChanges > 0 {
		k := g.n(p.envChanges + 1)
		for i := 0; i < k; i++ {
			at := time.Duration(g.n(90)) * time.Second
			f := sc.Files[g.n(len(sc.Files))]
			switch g.n(4) {
			case 0:
				sc.Env = append(sc.Env, &envAction{Kind: "replace", At: at, Name: f.Name, Size: sizeNear(g, bin), Seed: g.u64(), Age: int64(20 + g.n(100))})
			case 1:
				sc.Env = append(sc.Env, &envAction{Kind: "rewrite", At: at, Name: f.Name, Size: f.Size, Seed: g.u64(), Age: f.Age})
			case 2:
				nm := fmt.Sprintf("late.%02d.dat", i)
				sc.Env = append(sc.Env, &envAction{Kind: "write", At: at, Name: nm, Size: sizeNear(g, bin), Seed: g.u64(), Age: int64(20 + g.n(100))})
			case 3:
				sc.Env = append(sc.Env, &envAction{Kind: "touch", At: at, Name: f.Name, Age: int64(20 + g.n(50))})
			}
		}
	}
	// faults: 25% of runs are fault free
	sc.FaultFree = g.pct(25) || p.maxFaults == 0 && p.recvCrashes == 0 && p.sendCrashes == 0 && p.corrupt == 0 && p.recvErrs == 0
	if !sc.FaultFree {
		nfault := g.n(p.maxFaults + 1)
		kinds := p.faultKinds
		if len(kinds) == 0 {
			kinds = allNetFaults
		}
		for i := 0; i < nfault; i++ {
			req := []string{"data", "data", "data", "validate", "data-recovery", "partials", "any"}[g.n(7)]
			kind := kinds[g.n(len(kinds))]
			arg := 0
			switch kind {
			case "cut_req_at":
				arg = g.pick(0, 1, 60, 200, 400, int(bin/2), int(bin), int(bin*2))
			case "flip_req":
				arg = g.pick(3, 40, 90, 200, 300+g.n(int(bin)), int(bin)+g.n(200))
			case "cut_after_recorded":
				arg = 1 + g.n(3)
				req = "data"
			case "cut_resp_at":
				arg = g.pick(0, 5, 20, 60)
			}
			sc.Faults = append(sc.Faults, FaultSpec{Req: req, Nth: 1 + g.n(6), Fate: connFate{Kind: kind, Arg: arg}})
		}
		for i := 0; i < p.corrupt && g.pct(40); i++ {
			sc.Env = append(sc.Env, &envAction{Kind: "corrupt-stage", At: time.Duration(g.n(40)) * time.Second, Seed: g.u64()})
		}
		for i := 0; i < p.recvErrs && g.pct(50); i++ {
			sc.RecvErrAt = append(sc.RecvErrAt, 1+g.n(8))
		}
		if p.recvCrashes > 0 && g.pct(50) {
			sc.Env = append(sc.Env, &envAction{Kind: "crash-receiver", At: time.Duration(g.n(60)) * time.Second})
		}
		if p.sendCrashes > 0 && g.pct(50) {
			sc.SendCrashAt = 1 + g.n(80)
		}
	}
	sort.SliceStable(sc.Env, func(i, j int) bool { return sc.Env[i].At < sc.Env[j].At })
	if p.fineNet && g.pct(50) {
		sc.NetFinePct = g.pick(10, 30, 100)
	}
	sc.NetWindow = g.pick(0, 0, 0, 65536, 4096, 100)
	if p.hotGates {
		opts := []string{"stage.prepare", "stage.receive.begin", "stage.receive.written", "stage.received", "stage.status", "stage.scan", "stage.pathlock", "cache.lock"}
		for _, o := range opts {
			if g.pct(25) || (o == "stage.pathlock" && g.pct(40)) {
				sc.Hot = append(sc.Hot, o)
			}
		}
	}
	sc.TimeWeight = g.pick(1, 1, 2, 4)
	if !sc.FaultFree && g.pct(30) {
		sc.LongDelayPct = g.pick(2, 10)
	}
	sc.DownTime = g.dur(time.Second, 10*time.Second, 2*time.Minute)
	sc.MaxSteps = 30000
	sc.Settle = 3 * time.Hour
	sc.MaxFake = 6 * time.Hour
	return sc
}

func (g *gen) int64pick(xs ...int64) int64 {
	v := xs[g.n(len(xs))]
	if v < 1 {
		v = 1
	}
	return v
}
