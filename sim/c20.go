package main

// C20: staging clean-up removes only what is already delivered.

import (
	"fmt"
	"math/rand/v2"
	"os"
	"path/filepath"
	"sort"
	"strings"
	"time"

	"github.com/arm-doe/sts"
)

type cleanSnap struct {
	tree  map[string]treeEntry
	cmps  map[string]*sts.Partial // rel (without ext) -> companion content before the pass
	mtime map[string]time.Time
	at    time.Time
	what  string
	node  *RecvNode
	// "<source>/<name>" -> hash of every file a part of which was on its way in
	// when the pass began
	receiving map[string]string
}

func (s *Sim) takeCleanSnap(n *RecvNode, what string) *cleanSnap {
	s.restamp(n)
	cs := &cleanSnap{tree: snapshotTree(n.stageDir(), nil), cmps: map[string]*sts.Partial{}, mtime: map[string]time.Time{}, at: time.Now(), what: what, node: n}
	cs.receiving = s.namesBeingReceived()
	filepath.Walk(n.stageDir(), func(p string, info os.FileInfo, err error) error {
		if err != nil {
			return nil
		}
		rel, _ := filepath.Rel(n.stageDir(), p)
		cs.mtime[rel] = info.ModTime()
		if strings.HasSuffix(p, ".cmp") {
			if c := readCmp(p); c != nil {
				cs.cmps[strings.TrimSuffix(rel, ".cmp")] = c
			}
		}
		return nil
	})
	return cs
}

func (s *Sim) installC20() {
	if !s.on("C20") {
		return
	}
	s.finalHooks = append(s.finalHooks, s.c20Final)
	s.onCleanRelease = func(n *RecvNode) {
		s.cleanPending = s.takeCleanSnap(n, "cleaner")
	}
	s.stepHooks = append(s.stepHooks, func() {
		if cs := s.cleanPending; cs != nil {
			s.cleanPending = nil
			if !cs.node.isDead() {
				s.judgeCleanPass(cs, snapshotTree(cs.node.stageDir(), nil), 0)
			}
		}
	})
}

// judgeCleanPass: what disappeared from the staging tree during a cleaning pass.
func (s *Sim) judgeCleanPass(cs *cleanSnap, after map[string]treeEntry, minAge time.Duration) {
	n := cs.node
	keys := make([]string, 0, len(cs.tree))
	for k := range cs.tree {
		keys = append(keys, k)
	}
	sort.Strings(keys)
	for _, k := range keys {
		if _, still := after[k]; still || k == "." {
			continue
		}
		e := cs.tree[k]
		ext := filepath.Ext(k)
		switch {
		case e.Dir:
			for k2, e2 := range cs.tree {
				if strings.HasPrefix(k2, k+"/") && !e2.Dir {
					s.violate("C20", "removed-non-empty-directory", "%s removed directory %s which held %s", cs.what, k, k2)
				}
			}
			if cs.what == "prune" && cs.at.Sub(cs.mtime[k]) < minAge {
				s.violate("C20", "removed-young-directory", "prune(min age %s) removed directory %s which was only %s old", minAge, k, cs.at.Sub(cs.mtime[k]))
			}
		case ext == ".full" || ext == ".wait":
			// leaves through validation / finalisation; must then have been delivered or promoted
			rel := strings.TrimSuffix(k, ext)
			if _, ok := after[rel+".wait"]; ok {
				continue
			}
			if s.relDelivered(n, rel, "") {
				continue
			}
			s.violate("C20", "cleaned-unvalidated-or-held-file", "%s removed %s, a file awaiting validation or its predecessor, without delivering it", cs.what, k)
		case ext == ".part" || ext == ".cmp":
			rel := strings.TrimSuffix(k, ext)
			hash := ""
			if c := cs.cmps[rel]; c != nil {
				hash = c.Hash
			}
			if ext == ".cmp" {
				// the record of a file that was validated and held before the pass
				// and is still held after it: start-up recovery finds held files
				// through their companions, so the cleaner has just orphaned it
				_, heldBefore := cs.tree[rel+".wait"]
				_, heldAfter := after[rel+".wait"]
				if heldBefore && heldAfter && !s.relDelivered(n, rel, hash) {
					s.violate("C20", "cleaned-companion-of-held-file", "%s removed %s, the record of a validated file (version %s) that is still held for its predecessor and has not been delivered", cs.what, k, short(hash))
					continue
				}
			}
			if _, ok := after[rel+".full"]; ok {
				continue
			}
			if _, ok := after[rel+".wait"]; ok {
				continue
			}
			if ext == ".cmp" {
				if _, ok := after[rel+".part"]; !ok {
					if _, had := cs.tree[rel+".part"]; !had {
						// orphan companion (no staged data): nothing is lost with it, but only
						// Recover removes those; the cleaner doing so is still only fine if delivered
					}
				}
			}
			if rh, ok := cs.receiving[rel]; ok && ext == ".part" && hash == "" && cs.at.Sub(cs.mtime[k]) >= 24*time.Hour && s.relDelivered(n, rel, "") && !s.relDelivered(n, rel, rh) {
				// no companion yet (it is written when the first part has been
				// taken in), an earlier version of the name delivered, the file
				// old by its time stamp: the cleaner takes it for a left-over of
				// the delivered version, while it is what a request that is being
				// served right now writes into
				s.violate("C20", "cleaned-partial-of-file-being-received", "%s removed %s, which has no companion yet, while a part of version %s of it was being received; that version has not been delivered", cs.what, k, short(rh))
				s.c20Explain(rel, rh)
				continue
			}
			if s.relDelivered(n, rel, hash) {
				continue
			}
			if hash == "" && ext == ".cmp" {
				continue
			}
			s.violate("C20", "cleaned-undelivered-data", "%s removed %s (version %s), which has neither been delivered nor logged as received", cs.what, k, short(hash))
		}
	}
}

// relDelivered: has <source>/<name> with that hash been delivered or logged?
func (s *Sim) relDelivered(n *RecvNode, rel, hash string) bool {
	parts := strings.SplitN(rel, "/", 2)
	if len(parts) != 2 {
		return false
	}
	src, name := parts[0], parts[1]
	if s.logHas(n, src, name, hash) > 0 {
		return true
	}
	for _, a := range s.ob.arrivals {
		if (hash == "" || a.MD5 == hash) && (trimSrc(a.Path, src) == name || s.renamedTarget(src, name, a.MD5) == a.Path) {
			return true
		}
	}
	return false
}

func init() {
	generators["C20"] = func(seed uint64, tier string) []*Scenario {
		sc, _ := baseW2("C20", seed)
		g := &gen{r: rand.New(rand.NewPCG(seed, 0x20))}
		sc.MaxFake = 30 * 24 * time.Hour
		sc.Settle = time.Minute
		sc.MaxInFlight = 1 + g.n(2)
		sc.GateWeight = map[string]int{"stage.process.begin": g.pick(1, 10, 10), "stage.finalize.item": g.pick(2, 10, 10)}
		sz := func() int64 { return int64(200 + g.n(1500)) }
		add := func(f PeerFile) int {
			sc.PeerFiles = append(sc.PeerFiles, f)
			return len(sc.PeerFiles) - 1
		}
		data := func(fi int, beg, end int64) { sc.Peer = append(sc.Peer, PeerOp{Kind: "data", Source: "src1", Parts: []PeerPart{{fi, beg, end}}}) }
		sc.Peer = append(sc.Peer, PeerOp{Kind: "poll", Source: "src1", Names: []string{"none.dat"}, Sync: true})
		nCases := 2 + g.n(5)
		var finishLater [][3]int64
		for i := 0; i < nCases; i++ {
			name := fmt.Sprintf("c%d/f%d.dat", g.n(2), i)
			if g.pct(30) {
				name = fmt.Sprintf("f%d.dat", i)
			}
			if g.pct(15) {
				// names that contain the staging extensions themselves
				name = []string{"spare.parts/inv%d.dat", "run.part%d.dat", "x.cmp.d/f%d.part.dat", "w.wait%d"}[g.n(4)]
				name = fmt.Sprintf(name, i)
			}
			switch g.n(7) {
			case 6: // held file, plus a request for a NEW version of it that died right after the descriptors
				s0, s1, s2 := sz(), sz(), sz()
				pname := "q-" + strings.ReplaceAll(name, "/", "-")
				fp := add(PeerFile{Name: pname, Size: s0, Seed: g.u64(), TimeS: 950})
				fi := add(PeerFile{Name: name, Size: s1, Seed: g.u64(), TimeS: 900, Prev: pname})
				f2 := add(PeerFile{Name: name, Size: s2, Seed: g.u64(), TimeS: 200, Prev: pname})
				data(fp, 0, s0/2)
				data(fi, 0, s1)
				sc.Peer = append(sc.Peer, PeerOp{Kind: "settle", Sync: true}) // validated and held
				sc.Peer = append(sc.Peer, PeerOp{Kind: "data", Source: "src1", Parts: []PeerPart{{f2, 0, s2}}, Truncate: -1 - g.n(3), Sync: true})
				finishLater = append(finishLater, [3]int64{int64(fp), s0 / 2, s0})
			case 0: // plain partial of an undelivered file
				s0 := sz()
				fi := add(PeerFile{Name: name, Size: s0, Seed: g.u64(), TimeS: 900})
				data(fi, 0, s0/2)
				finishLater = append(finishLater, [3]int64{int64(fi), s0 / 2, s0})
			case 1: // delivered v1, then a stalled partial of a NEW version of the same name
				s0, s1 := sz(), sz()
				f1 := add(PeerFile{Name: name, Size: s0, Seed: g.u64(), TimeS: 900})
				data(f1, 0, s0)
				sc.Peer = append(sc.Peer, PeerOp{Kind: "settle", Sync: true}) // v1 is put away completely first
				f2 := add(PeerFile{Name: name, Size: s1, Seed: g.u64(), TimeS: 300})
				data(f2, 0, s1/3)
				finishLater = append(finishLater, [3]int64{int64(f2), s1 / 3, s1})
			case 2: // delivered file, then a late duplicate part of the same version
				s0 := sz()
				fi := add(PeerFile{Name: name, Size: s0, Seed: g.u64(), TimeS: 900})
				data(fi, 0, s0)
				sc.Peer = append(sc.Peer, PeerOp{Kind: "settle", Sync: true}) // v1 is put away completely first
				data(fi, 0, s0/2)
			case 3: // held file: complete, validated, waiting for a predecessor that is only partly there
				s0, s1 := sz(), sz()
				pname := "p-" + strings.ReplaceAll(name, "/", "-")
				fp := add(PeerFile{Name: pname, Size: s0, Seed: g.u64(), TimeS: 950})
				fi := add(PeerFile{Name: name, Size: s1, Seed: g.u64(), TimeS: 900, Prev: pname})
				data(fp, 0, s0/2)
				data(fi, 0, s1)
				finishLater = append(finishLater, [3]int64{int64(fp), s0 / 2, s0})
			case 4: // complete but (maybe) not yet validated when the cleaner comes
				s0 := sz()
				fi := add(PeerFile{Name: name, Size: s0, Seed: g.u64(), TimeS: 900})
				data(fi, 0, s0)
			case 5: // partial in two pieces with a gap
				s0 := sz()
				fi := add(PeerFile{Name: name, Size: s0, Seed: g.u64(), TimeS: 900})
				data(fi, 0, s0/4)
				data(fi, s0/2, s0)
				finishLater = append(finishLater, [3]int64{int64(fi), s0 / 4, s0 / 2})
			}
		}
		// ageing on both sides of the thresholds, then cleaning by every route
		for i := 0; i < 1+g.n(3); i++ {
			age := int64(g.pick(3600, 23*3600, 25*3600, 25*3600, 49*3600))
			sc.Peer = append(sc.Peer, PeerOp{Kind: "age", Age: age, Sync: g.pct(50)})
			switch g.n(4) {
			case 0, 1:
				sc.Peer = append(sc.Peer, PeerOp{Kind: "clean", Source: "src1", Sync: g.pct(50)})
			case 2:
				sc.Peer = append(sc.Peer, PeerOp{Kind: "prune", Source: "src1", Age: int64(g.pick(0, 60, 86400)), Sync: true})
			case 3:
				sc.Peer = append(sc.Peer, PeerOp{Kind: "wait", Dur: 31 * time.Minute}) // the 30-minute timer
			}
			if g.pct(30) {
				sc.Peer = append(sc.Peer, PeerOp{Kind: "crash", Sync: true})
			}
		}
		sc.Peer = append(sc.Peer, PeerOp{Kind: "partials", Source: "src1", Sync: true})
		// the interrupted transfers go on; in the absence of faults nothing has to be sent twice
		for _, f := range finishLater {
			data(int(f[0]), f[1], f[2])
		}
		sc.Peer = append(sc.Peer, PeerOp{Kind: "wait", Dur: 30 * time.Second, Sync: true})
		sc.Peer = append(sc.Peer, PeerOp{Kind: "partials", Source: "src1", Sync: true})
		sc.Extra = map[string]any{"finish": len(finishLater)}
		return one(sc)
	}
}
