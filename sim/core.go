package main

// Deterministic simulator core: tape, scheduler, gates, decision log.
// Compiled into package main of /repo through -overlay (see ../runner.py).

import (
	"crypto/sha256"
	"encoding/hex"
	"fmt"
	"math/rand/v2"
	"runtime"
	"sort"
	"strings"
	"sync"
	"testing/synctest"
	"time"

	"github.com/arm-doe/sts"
)

// ---------------------------------------------------------------- tape

// Tape is the only source of choices inside a run. Choice i is fixed[i] when
// the replay file supplies it, otherwise the i-th output of a PCG stream.
type Tape struct {
	rng   *rand.Rand
	fixed []uint32
	rec   []uint32
	zeroFrom int // choices at index >= zeroFrom are 0 (minimisation); -1 = off
}

func newTape(seed uint64, fixed []uint32, zeroFrom int) *Tape {
	return &Tape{rng: rand.New(rand.NewPCG(seed, 0x9e3779b97f4a7c15)), fixed: fixed, zeroFrom: zeroFrom}
}

func (t *Tape) raw() uint32 {
	i := len(t.rec)
	var v uint32
	r := t.rng.Uint32() // always advance so that overriding does not shift the stream
	switch {
	case i < len(t.fixed):
		v = t.fixed[i]
	case t.zeroFrom >= 0 && i >= t.zeroFrom:
		v = 0
	default:
		v = r
	}
	t.rec = append(t.rec, v)
	return v
}

// N returns a choice in [0,n).
func (t *Tape) N(n int) int {
	if n <= 1 {
		return 0
	}
	return int(t.raw() % uint32(n))
}

// ---------------------------------------------------------------- events

type event struct {
	label  string // canonical, content-based
	weight int
	do     func()
}

type gateCmd int

const (
	gateGo gateCmd = iota
	gateKill
)

type gate struct {
	label string
	key   string
	node  nodeRef
	ch    chan gateCmd
	onRel func() // executed by the scheduler right before release
}

type nodeRef interface {
	isDead() bool
	nodeName() string
}

// Violation is one oracle failure.
type Violation struct {
	Prop   string `json:"prop"`
	Oracle string `json:"oracle"`
	Detail string `json:"detail"`
	Step   int    `json:"step"`
}

// Sim is one simulated run.
type Sim struct {
	sc   *Scenario
	tape *Tape
	ws   string // workspace directory

	mu     sync.Mutex
	wake   chan struct{}
	parked []*gate
	step   int
	epoch  time.Time

	dlog     []string
	dhash    string
	keepLog  bool
	stats    map[string]int
	viol     []Violation
	trouble  []string
	obsNode []nodeRef
	obsBuf   []string // observations made by SUT goroutines during the current step
	lastFaultStep int
	lastFaultTime time.Time

	net   *simNet
	recv  *RecvNode
	send  *SendNode
	world *World
	ob    *Obs

	envDue      []*envAction
	ended       bool
	hot         map[string]bool
	crashArmed  map[string]int // label -> occurrence to crash at (receiver)
	crashCount  map[string]int
	crashLabels map[string]int // occurrences seen per crash label (for enumeration)
	stepHooks   []func()
	finalHooks  []func()
	curConn     *simConn
	extraEvents func() []event

	recvAll        []*RecvNode
	sendAll        []*SendNode
	fakeElapsed    time.Duration
	settledFinal   bool
	settledAt      time.Time
	settledStep    int
	unsettledWhy   string
	inconclusive   bool
	sutLog         []string
	nFaults        int
	pointActions   map[string]func(*RecvNode, string)
	sendCrashAt    int
	sendCrashInc   int
	sendCrashLabel string
	sendCrashSeen  int
	stopAt         int
	stopGraceful   bool
	recvCrashIdx   int
	recvErrInject  func(*gkDeco, *sts.Partial) error
	envExt         func(*envAction) bool
	envDeleted     map[string]bool
	eligibleFn     func(string, *srcVersion) bool
	reads          []readObs
	extraAnnounced []partDesc
	operatorFn     func(cmd, mode string)
	mon            *w1mon
	peerCalls      []*peerCall
	hidden         []string
	w2             *w2state
	w2m            *w2mon
	onCleanRelease func(*RecvNode)
	cleanPending   *cleanSnap

	hookScanListing   func(*gkDeco, []*sts.Partial)
	hookReceived      func(*gkDeco, *recvPartObs)
	hookReceivedQuery func(*gkDeco, []partDesc, int)
	hookScan          func(*SendNode, *scanObs)
	hookPush          func(*SendNode, []sts.Hashed)
	hookPop           func(*SendNode, *popObs)
	hookSentLog       func(*SendNode, *sentLogObs)
	hookTxBegin       func(*SendNode, *txObs)
	hookTxEnd         func(*SendNode, *txObs)
	hookPollBegin     func(*SendNode, *pollObs)
}

func (s *Sim) stat(k string) { s.mu.Lock(); s.stats[k]++; s.mu.Unlock() }
func (s *Sim) statN(k string, n int) { s.mu.Lock(); s.stats[k] += n; s.mu.Unlock() }

func (s *Sim) now() time.Time { return time.Now() }

func (s *Sim) signalWake() {
	select {
	case s.wake <- struct{}{}:
	default:
	}
}

// observe records something seen by a SUT goroutine; sorted per step before
// entering the decision log so that goroutine timing cannot leak.
func (s *Sim) observe(format string, a ...any) {
	s.mu.Lock()
	s.obsBuf = append(s.obsBuf, fmt.Sprintf(format, a...))
	s.obsNode = append(s.obsNode, nil)
	s.mu.Unlock()
}

// observeAt records that a goroutine of node n has reached a gate. If n is
// dead when the step is over (it crashed in this very step, at a point inside
// another of its goroutines) the record is dropped: whether the goroutine got
// as far as the gate before the crash is a race inside the dying process.
func (s *Sim) observeAt(n nodeRef, format string, a ...any) {
	s.mu.Lock()
	s.obsBuf = append(s.obsBuf, fmt.Sprintf(format, a...))
	s.obsNode = append(s.obsNode, n)
	s.mu.Unlock()
}

func (s *Sim) violate(prop, oracle, format string, a ...any) {
	s.mu.Lock()
	defer s.mu.Unlock()
	for _, v := range s.viol {
		if v.Prop == prop && v.Oracle == oracle {
			return // one per oracle per run is enough
		}
	}
	s.viol = append(s.viol, Violation{Prop: prop, Oracle: oracle, Detail: fmt.Sprintf(format, a...), Step: s.step})
}

func (s *Sim) troublef(format string, a ...any) {
	s.mu.Lock()
	s.trouble = append(s.trouble, fmt.Sprintf(format, a...))
	s.mu.Unlock()
}

// park blocks the calling SUT goroutine until the scheduler releases it.
// Must be called with no SUT lock held.
func (s *Sim) park(node nodeRef, label, key string, onRel func()) {
	if node != nil && node.isDead() {
		runtime.Goexit()
	}
	g := &gate{label: label, key: key, node: node, ch: make(chan gateCmd), onRel: onRel}
	s.mu.Lock()
	s.parked = append(s.parked, g)
	s.stats["gate:"+label]++
	s.mu.Unlock()
	s.signalWake()
	cmd := <-g.ch
	if cmd == gateKill || (node != nil && node.isDead()) {
		runtime.Goexit()
	}
}

func (s *Sim) logDecision(label string, n int) {
	line := fmt.Sprintf("%d %s /%d", s.step, label, n)
	s.dlog = append(s.dlog, line)
}

func (s *Sim) flushObs() {
	s.mu.Lock()
	all, nodes := s.obsBuf, s.obsNode
	s.obsBuf, s.obsNode = nil, nil
	s.mu.Unlock()
	var buf []string
	for i, b := range all {
		if i < len(nodes) && nodes[i] != nil && nodes[i].isDead() {
			continue
		}
		buf = append(buf, b)
	}
	if len(buf) == 0 {
		return
	}
	sort.Strings(buf)
	for _, b := range buf {
		s.dlog = append(s.dlog, "  . "+b)
	}
}

func (s *Sim) finishLog() {
	h := sha256.New()
	for _, l := range s.dlog {
		h.Write([]byte(l))
		h.Write([]byte{'\n'})
	}
	s.dhash = hex.EncodeToString(h.Sum(nil))[:16]
}

// killDeadGates removes parked gates of dead nodes (their goroutines exit).
func (s *Sim) killDeadGates() {
	s.mu.Lock()
	var keep []*gate
	var kill []*gate
	for _, g := range s.parked {
		if g.node != nil && g.node.isDead() {
			kill = append(kill, g)
		} else {
			keep = append(keep, g)
		}
	}
	s.parked = keep
	s.mu.Unlock()
	for _, g := range kill {
		g.ch <- gateKill
	}
}

func (s *Sim) takeGate(g *gate) {
	s.mu.Lock()
	for i, p := range s.parked {
		if p == g {
			s.parked = append(s.parked[:i], s.parked[i+1:]...)
			break
		}
	}
	s.mu.Unlock()
}

func (s *Sim) release(g *gate) {
	s.takeGate(g)
	if g.onRel != nil {
		g.onRel()
	}
	if g.node != nil && g.node.isDead() {
		g.ch <- gateKill
		return
	}
	g.ch <- gateGo
}

// passTime lets fake time advance by at most d, returning early when a SUT
// goroutine reaches something the scheduler owns.
func (s *Sim) passTime(d time.Duration) {
	if d <= 0 {
		return
	}
	// drain stale wake
	select {
	case <-s.wake:
	default:
	}
	// A gate may have been parked between the last quiescence and now? No:
	// we are called right after synctest.Wait() with nothing released.
	t := time.NewTimer(d)
	select {
	case <-s.wake:
		t.Stop()
	case <-t.C:
	}
}

var shortSteps = []time.Duration{
	time.Millisecond, 10 * time.Millisecond, 200 * time.Millisecond, time.Second, 3 * time.Second,
}

var timeSteps = []time.Duration{
	time.Millisecond, 10 * time.Millisecond, 200 * time.Millisecond, time.Second, 3 * time.Second,
	11 * time.Second, 61 * time.Second, 10 * time.Minute, 31 * time.Minute, 2 * time.Hour, 26 * time.Hour,
}

// enabledEvents builds the canonical, sorted list of enabled events.
func (s *Sim) enabledEvents() []event {
	var evs []event
	s.mu.Lock()
	gates := append([]*gate(nil), s.parked...)
	s.mu.Unlock()
	seen := map[string]bool{}
	for _, g := range gates {
		g := g
		lab := "gate " + g.node.nodeName() + " " + g.label + " " + g.key
		if seen[lab] {
			continue // symmetric duplicates: the first one stands for all
		}
		seen[lab] = true
		w := 10
		if ww, ok := s.sc.GateWeight[g.label]; ok {
			w = ww
		}
		evs = append(evs, event{label: lab, weight: w, do: func() { s.release(g) }})
	}
	if s.net != nil {
		evs = append(evs, s.net.events()...)
	}
	evs = append(evs, s.envEvents()...)
	if s.extraEvents != nil {
		evs = append(evs, s.extraEvents()...)
	}
	sort.SliceStable(evs, func(i, j int) bool { return evs[i].label < evs[j].label })
	return evs
}

// stepOnce performs one scheduler step. Returns false when the run is over.
func (s *Sim) stepOnce() bool {
	synctest.Wait()
	s.killDeadGates()
	s.flushObs()
	s.afterQuiesce()
	if s.ended || s.step >= s.sc.MaxSteps || time.Since(s.epoch) > s.sc.MaxFake {
		return false
	}
	evs := s.enabledEvents()
	// time passing is always possible; when something else is enabled it is
	// a low-weight alternative, otherwise the only option.
	total := 0
	for _, e := range evs {
		total += e.weight
	}
	horizon := s.nextEnvHorizon()
	if total == 0 {
		d := horizon
		s.logDecision("time "+d.String(), 1)
		s.step++
		s.passTime(d)
		return true
	}
	tw := s.sc.TimeWeight
	pick := s.tape.N(total + tw)
	if pick >= total {
		// something else is enabled: letting time pass instead is a delay.
		// Mostly short; a long one (> the shortest request timeout) is
		// counted as a fault because it can make requests time out.
		d := shortSteps[s.tape.N(len(shortSteps))]
		if s.sc.LongDelayPct > 0 && s.tape.N(100) < s.sc.LongDelayPct {
			d = timeSteps[s.tape.N(len(timeSteps))]
		}
		if d > horizon {
			d = horizon
		}
		if d >= 10*time.Second {
			s.noteFault()
			s.stat("fault:delay")
		}
		s.logDecision("time "+d.String(), len(evs)+1)
		s.step++
		s.passTime(d)
		return true
	}
	for _, e := range evs {
		if pick < e.weight {
			s.logDecision(e.label, len(evs)+1)
			s.step++
			e.do()
			return true
		}
		pick -= e.weight
	}
	panic("unreachable")
}

func (s *Sim) runLoop() {
	for s.stepOnce() {
	}
	s.flushObs()
}

// canonical path: strip workspace root
func (s *Sim) rel(p string) string {
	if strings.HasPrefix(p, s.ws) {
		return p[len(s.ws):]
	}
	return p
}
