package main

import (
	"bytes"
	"strconv"
	"strings"
)

// dataRegionStart returns the absolute stream offset at which the file data
// of a /data request begins (after HTTP headers, chunk framing and the JSON
// part descriptors), or -1 when it cannot be determined from what is pending.
// hdrEnd is the index in pending right after the blank line; base is the
// absolute offset of pending[0].
func dataRegionStart(pending []byte, hdrEnd int, base int64) int64 {
	head := string(pending[:hdrEnd])
	metaLen := -1
	gz := false
	for _, line := range strings.Split(head, "\r\n") {
		l := strings.ToLower(line)
		if strings.HasPrefix(l, "x-sts-metalen:") {
			metaLen, _ = strconv.Atoi(strings.TrimSpace(line[len("x-sts-metalen:"):]))
		}
		if strings.HasPrefix(l, "content-encoding:") && strings.Contains(l, "gzip") {
			gz = true
		}
	}
	if metaLen < 0 {
		return base + int64(hdrEnd) // not a payload request: anywhere in the body
	}
	if gz {
		// the compressed descriptors never take more room than the plain ones plus framing
		return base + int64(hdrEnd) + int64(metaLen) + 96
	}
	// walk the chunk framing until metaLen payload bytes have been passed
	pos := hdrEnd
	left := metaLen
	for {
		i := bytes.Index(pending[pos:], []byte("\r\n"))
		if i < 0 {
			return -1
		}
		sz, err := strconv.ParseInt(strings.TrimSpace(string(pending[pos:pos+i])), 16, 64)
		if err != nil || sz == 0 {
			return -1
		}
		pos += i + 2
		if int64(left) < sz {
			return base + int64(pos) + int64(left)
		}
		left -= int(sz)
		pos += int(sz) + 2
		if pos > len(pending) {
			return -1
		}
		if left == 0 {
			// data starts inside the next chunk
			i := bytes.Index(pending[pos:], []byte("\r\n"))
			if i < 0 {
				return -1
			}
			return base + int64(pos+i+2)
		}
	}
}
