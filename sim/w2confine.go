package main

import "strings"

// confinedChange: is a change (created/changed/removed path, relative to the
// sandbox) within what requests may legitimately affect? Requests may create
// things below <root>/{stage,final,logs/incoming_from,serve}/<some source>/,
// where <some source> is a single directory level named after the source the
// request was made for. They may never touch anything else, and never the
// pre-existing content of another source ("othersrc") or the sentinels.
func confinedChange(kind, rel string) bool {
	parts := strings.Split(rel, "/")
	if len(parts) < 3 || !strings.HasPrefix(parts[0], "r") {
		return false
	}
	i := 1
	switch parts[1] {
	case "stage", "final", "serve":
		i = 2
	case "logs":
		if len(parts) < 4 || (parts[2] != "incoming_from" && parts[2] != "messages") {
			return false
		}
		if parts[2] == "messages" {
			return true
		}
		i = 3
	default:
		return false
	}
	if len(parts) <= i {
		return false
	}
	src := parts[i]
	if src == "othersrc" || src == ".." || src == "." || src == "" {
		return false
	}
	for _, p := range parts[i+1:] {
		if p == ".." {
			return false
		}
	}
	return kind == "created" || src != "othersrc"
}
