package main

// Generators for the monitor properties and the fault enumerations.

import (
	"encoding/json"
	"fmt"
	"math/rand/v2"
	"sort"
	"strings"
	"time"
)

// enumerators: run a fault-free baseline of a scenario, then derive one
// scenario per fault position from what the baseline exercised.
var enumerators = map[string]func(seed uint64, tier string, run func(*Scenario) *RunResult) []*Scenario{}

func cloneScenario(c *Scenario) *Scenario {
	b, _ := json.Marshal(c)
	var n Scenario
	json.Unmarshal(b, &n)
	return &n
}

func init() {
	generators["C04"] = func(seed uint64, tier string) []*Scenario {
		if seed%5 >= 3 {
			return one(genC04W2(seed)) // the receiver clause against a scripted peer
		}
		p := profile{maxFiles: 8, maxFaults: 4, orders: true, deletes: true, fineNet: true, hotGates: true, recvCrashes: 1, sendCrashes: 1, corrupt: 1, recvErrs: 1, dirs: true}
		sc := genW1("C04", seed, p)
		forceOrdered(sc, seed)
		return one(sc)
	}
	generators["C08"] = func(seed uint64, tier string) []*Scenario {
		p := profile{maxFiles: 6, maxFaults: 4, orders: true, fineNet: true, recvErrs: 3, recvCrashes: 1, // (a restarting receiver answers 503 for a while)
			faultKinds: []string{"cut_req_at", "cut_after_recorded", "cut_after_recorded", "drop_resp", "cut_resp_at", "stall"}}
		sc := genW1("C08", seed, p)
		for _, a := range sc.Env {
			if a.Kind == "crash-receiver" {
				// early, short, and with a start-up recovery that takes its time:
				// the sender's requests then meet "503 not ready"
				a.At = time.Duration(500+int(seed>>9)%12000) * time.Millisecond
				sc.DownTime = time.Second
				sc.GateWeight = map[string]int{"stage.recover.begin": 1}
			}
		}
		sort.SliceStable(sc.Env, func(i, j int) bool { return sc.Env[i].At < sc.Env[j].At })
		smallChunks(sc, seed)
		return one(sc)
	}
	generators["C10"] = func(seed uint64, tier string) []*Scenario {
		p := profile{maxFiles: 10, maxFaults: 2, orders: true, envChanges: 3, sendCrashes: 1, dirs: true, recvErrs: 1}
		sc := genW1("C10", seed, p)
		forceOrdered(sc, seed)
		return one(sc)
	}
	generators["C11"] = func(seed uint64, tier string) []*Scenario {
		p := profile{maxFiles: 8, maxFaults: 3, orders: true, sendCrashes: 1, recvCrashes: 1, recvErrs: 2, fineNet: true,
			faultKinds: []string{"cut_req_at", "cut_after_recorded", "drop_resp"}}
		sc := genW1("C11", seed, p)
		smallChunks(sc, seed)
		return one(sc)
	}
	generators["C13"] = func(seed uint64, tier string) []*Scenario {
		if seed%5 == 4 {
			return one(genC13W2(seed)) // every request shape against the real decoder, over a fragmenting connection
		}
		p := profile{maxFiles: 6, maxFaults: 2, orders: true, renames: true, fineNet: true, dirs: true,
			faultKinds: []string{"cut_req_at", "cut_after_recorded", "drop_resp"}}
		if seed%3 == 1 {
			// source files changing or vanishing between the attempts to send a
			// payload: the sender then takes parts out of a payload it has
			// already encoded once
			p.envChanges, p.maxFaults = 3, 4
		}
		sc := genW1("C13", seed, p)
		if seed%3 == 1 {
			// several small files per payload, the first data requests fail, and
			// sources change or vanish while those payloads are being retried
			g := &gen{r: rand.New(rand.NewPCG(seed, 0x13a))}
			sc.Send.BinSize = int64(g.pick(2048, 4096, 8192))
			for i := range sc.Files {
				sc.Files[i].Size = int64(1 + g.n(700))
			}
			sc.Faults = nil
			for k := 1; k <= 1+g.n(3); k++ {
				sc.Faults = append(sc.Faults, FaultSpec{Req: "data", Nth: k, Fate: connFate{Kind: []string{"cut_req_at", "drop_resp", "cut_after_recorded"}[g.n(3)], Arg: 1 + g.n(300)}})
			}
			sc.Env = nil
			for k := 0; k < 2+g.n(3) && len(sc.Files) > 0; k++ {
				f := sc.Files[g.n(len(sc.Files))]
				at := time.Duration(500+g.n(20000)) * time.Millisecond
				switch g.n(3) {
				case 0:
					sc.Env = append(sc.Env, &envAction{Kind: "delete", At: at, Name: f.Name})
				case 1:
					sc.Env = append(sc.Env, &envAction{Kind: "replace", At: at, Name: f.Name, Size: int64(1 + g.n(700)), Seed: g.u64(), Age: f.Age / 2})
				case 2:
					sc.Env = append(sc.Env, &envAction{Kind: "rewrite", At: at, Name: f.Name, Size: f.Size, Seed: g.u64(), Age: f.Age})
				}
			}
			sc.FaultFree = false
		}
		sc.NetFinePct = []int{0, 30, 100, 100}[seed%4]
		sc.Send.Compression = int(seed>>8) % 10
		oddNames(sc, seed)
		smallChunks(sc, seed)
		return one(sc)
	}

	// ---- C06: receiver crash at every durable step
	enumerators["C06"] = func(seed uint64, tier string, run func(*Scenario) *RunResult) []*Scenario {
		p := profile{maxFiles: 4, orders: true, renames: true, fineNet: true, hotGates: true, deletes: true}
		base := genW1("C06", seed, p)
		base.FaultFree = true
		base.Faults, base.RecvErrAt, base.SendCrashAt = nil, nil, 0
		if seed%3 == 0 {
			// a payload damaged in transit: the crash points around validation
			// are then met with content that must NOT be delivered
			base.Faults = []FaultSpec{{Req: "data", Nth: 1 + int(seed>>7)%3, Fate: connFate{Kind: "flip_req", Arg: 5 + int(seed>>11)%200}}}
			base.Send.Compression = 0
		}
		forceOrdered(base, seed)
		smallChunks(base, seed)
		base.DownTime = []time.Duration{time.Second, 10 * time.Second, 90 * time.Second}[seed%3]
		r := run(base)
		var pts []CrashSpec
		for k, v := range r.Stats {
			if strings.HasPrefix(k, "cp:") {
				for i := 1; i <= v; i++ {
					pts = append(pts, CrashSpec{Label: k[3:], K: i})
				}
			}
		}
		sort.Slice(pts, func(i, j int) bool {
			if pts[i].Label != pts[j].Label {
				return pts[i].Label < pts[j].Label
			}
			return pts[i].K < pts[j].K
		})
		g := rand.New(rand.NewPCG(seed, 606))
		if tier == "quick" {
			// every label at least once, then a sample
			seen := map[string]bool{}
			var pick []CrashSpec
			perm := g.Perm(len(pts))
			for _, i := range perm {
				if !seen[pts[i].Label] {
					seen[pts[i].Label] = true
					pick = append(pick, pts[i])
				}
			}
			for _, i := range perm {
				if len(pick) >= 30 {
					break
				}
				pick = append(pick, pts[i])
			}
			pts = pick
		} else if len(pts) > 400 {
			perm := g.Perm(len(pts))[:400]
			var pick []CrashSpec
			for _, i := range perm {
				pick = append(pick, pts[i])
			}
			pts = pick
		}
		var out []*Scenario
		for i, c := range pts {
			sc := cloneScenario(base)
			sc.FaultFree = false
			sc.RecvCrash = []CrashSpec{c}
			// consecutive crashes, including during recovery
			if i%6 == 5 || (tier == "thorough" && i%3 == 2) {
				second := []string{"stage.recover.full", "stage.recover.cache0", "stage.recover.cache1", "stage.process.hashed", "stage.process.wait", "stage.put.logged", "fileutil.move.lck", "stage.receive.recorded", "fileutil.writejson.tmp"}
				sc.RecvCrash = append(sc.RecvCrash, CrashSpec{Label: second[g.IntN(len(second))], K: 1 + g.IntN(2)})
			}
			if g.IntN(4) == 0 {
				sc.Extra = map[string]any{"torn": true}
			}
			out = append(out, sc)
		}
		return out
	}

	// ---- C07: sender crash between every two externally visible actions
	enumerators["C07"] = func(seed uint64, tier string, run func(*Scenario) *RunResult) []*Scenario {
		p := profile{maxFiles: 5, orders: true, deletes: true, fineNet: true, hotGates: true, maxFaults: 2, recvErrs: 1,
			faultKinds: []string{"cut_req_at", "cut_after_recorded", "drop_resp"}}
		base := genW1("C07", seed, p)
		base.SendCrashAt = 0
		base.Env = nil
		for i := range base.Faults {
			base.Faults[i].Req = "data" // partial-reception states; leave polls alone in the baseline
		}
		forceOrdered(base, seed)
		smallChunks(base, seed)
		base.DownTime = []time.Duration{time.Second, 10 * time.Second, 90 * time.Second}[seed%3]
		r := run(base)
		n := r.Stats["actions:s0"]
		g := rand.New(rand.NewPCG(seed, 707))
		var idx []int
		for i := 1; i <= n; i++ {
			idx = append(idx, i)
		}
		lim := 40
		if tier == "thorough" {
			lim = 400
		}
		if len(idx) > lim {
			perm := g.Perm(len(idx))[:lim]
			sort.Ints(perm)
			var pick []int
			for _, i := range perm {
				pick = append(pick, idx[i])
			}
			idx = pick
		}
		var out []*Scenario
		for _, k := range idx {
			sc := cloneScenario(base)
			sc.FaultFree = false
			sc.SendCrashAt = k
			if g.IntN(8) == 0 {
				sc.Extra = map[string]any{"second_crash_at": 1 + g.IntN(12)}
			}
			out = append(out, sc)
		}
		for k := 1; k <= r.Stats["h1:fileutil.writejson.tmp:s0"] && k <= 6; k++ {
			sc := cloneScenario(base)
			sc.FaultFree = false
			sc.SendCrashLabel = "fileutil.writejson.tmp"
			sc.SendCrashAt = k
			out = append(out, sc)
		}
		return out
	}

	// ---- C16: stop at every action index, both kinds
	enumerators["C16"] = func(seed uint64, tier string, run func(*Scenario) *RunResult) []*Scenario {
		p := profile{maxFiles: 6, orders: true, deletes: true, maxFaults: 2, recvErrs: 1, corrupt: 1,
			faultKinds: []string{"cut_req_at", "drop_resp", "flip_req", "cut_after_recorded"}}
		base := genW1("C16", seed, p)
		base.SendCrashAt = 0
		base.Env = nil
		r := run(base)
		n := r.Stats["actions:s0"]
		g := rand.New(rand.NewPCG(seed, 1616))
		var out []*Scenario
		os := cloneScenario(base)
		os.OneShot = true
		out = append(out, os)
		lim := 20
		if tier == "thorough" {
			lim = 150
		}
		var idx []int
		for i := 1; i <= n; i++ {
			idx = append(idx, i)
		}
		if len(idx) > lim {
			perm := g.Perm(len(idx))[:lim]
			sort.Ints(perm)
			var pick []int
			for _, i := range perm {
				pick = append(pick, idx[i])
			}
			idx = pick
		}
		for _, k := range idx {
			for _, gr := range []bool{true, false} {
				sc := cloneScenario(base)
				sc.StopAt = k
				sc.StopGraceful = gr
				out = append(out, sc)
			}
		}
		// an immediate stop while the receiver is unreachable for longer than the
		// bound (start-up recovery, or whatever the sender is doing, keeps
		// failing): "it exits promptly" must not depend on the receiver
		for _, k := range []int{1, 2, 1 + g.IntN(imax(n, 1))} {
			sc := cloneScenario(base)
			sc.Faults = nil
			sc.FaultFree = false
			sc.Env = []*envAction{{Kind: "crash-receiver", At: 0}}
			sc.DownTime = 5 * time.Hour
			sc.StopAt = k
			sc.StopGraceful = false
			out = append(out, sc)
		}
		return out
	}
}

func forceOrdered(sc *Scenario, seed uint64) {
	for i := range sc.Send.Tags {
		if sc.Send.Tags[i].Order == "none" && seed%5 != 0 {
			sc.Send.Tags[i].Order = []string{"fifo", "lifo"}[(seed>>3)%2]
		}
	}
}

func smallChunks(sc *Scenario, seed uint64) {
	if seed%3 == 0 {
		return
	}
	bin := sc.Send.BinSize
	sc.Send.Tags[0].ChunkSize = []int64{bin/3 + 1, bin / 2, bin/5 + 1, 100, bin}[(seed>>5)%5]
	if sc.Send.Tags[0].ChunkSize < 1 {
		sc.Send.Tags[0].ChunkSize = 1
	}
}

// oddNames: unicode, spaces, ':' and '\' in names (C13)
func oddNames(sc *Scenario, seed uint64) {
	odd := []string{"ünï cødé.dat", "with space.01.dat", "colon:in:name.dat", `back\slash.dat`, "d1/späce dir.x", "plus+and%25.dat"}
	for i := range sc.Files {
		if (seed>>uint(i))&3 == 0 {
			sc.Files[i].Name = fmt.Sprintf("%s.%d", odd[(int(seed>>4)+i)%len(odd)], i)
		}
	}
}
