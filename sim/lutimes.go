package main

import (
	"syscall"
	"time"
	"unsafe"
)

// lutimes sets the modification time of a symbolic link itself (the kernel
// stamps new links with the real clock, the simulation lives on a fake one).
func lutimes(path string, t time.Time) error {
	ts := [2]syscall.Timespec{syscall.NsecToTimespec(t.UnixNano()), syscall.NsecToTimespec(t.UnixNano())}
	p, err := syscall.BytePtrFromString(path)
	if err != nil {
		return err
	}
	atFDCWD := -100
	const atSymlinkNoFollow = 0x100
	_, _, e := syscall.Syscall6(syscall.SYS_UTIMENSAT, uintptr(atFDCWD), uintptr(unsafe.Pointer(p)), uintptr(unsafe.Pointer(&ts[0])), atSymlinkNoFollow, 0, 0)
	if e != 0 {
		return e
	}
	return nil
}
