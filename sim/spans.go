package main

// Reception spans: from the moment the receiver starts taking in a part until
// it is done with it (recorded, failed, or cut off). Used to tell one specific
// history apart: two VERSIONS of one name in flight at the same time. sts
// stages all versions of a name in one file and writes parts through file
// handles opened outside the per-file lock, so a part of the older version that
// is still streaming goes on writing into the file after the newer version was
// completed, renamed and validated (the handle follows the renames).

import "sync"

type recvSpan struct {
	Src, Name, Hash string
	Begin, End      int // scheduler steps; End < 0 while in progress
}

var (
	spanMu sync.Mutex
	spans  = map[*Sim][]*recvSpan{}
)

func (s *Sim) spanBegin(src, name, hash string) *recvSpan {
	sp := &recvSpan{Src: src, Name: name, Hash: hash, Begin: s.step, End: -1}
	spanMu.Lock()
	if _, ok := spans[s]; !ok {
		for k := range spans {
			delete(spans, k) // earlier simulations of this process
		}
	}
	spans[s] = append(spans[s], sp)
	spanMu.Unlock()
	return sp
}

func (s *Sim) spanEnd(sp *recvSpan) {
	spanMu.Lock()
	sp.End = s.step
	spanMu.Unlock()
}

// versionsInFlightTogetherAny: the same for every source name announced for a
// final path (ann: hash -> source name; the final name may be a rename target).
func (s *Sim) versionsInFlightTogetherAny(src string, ann map[string]string) bool {
	seen := map[string]bool{}
	for _, name := range ann {
		if !seen[name] {
			seen[name] = true
			if s.versionsInFlightTogether(src, name) {
				return true
			}
		}
	}
	return false
}

// versionsInFlightTogether: were parts of two different versions (hashes) of
// <src>/<name> being received at overlapping times?
func (s *Sim) versionsInFlightTogether(src, name string) bool {
	spanMu.Lock()
	defer spanMu.Unlock()
	l := spans[s]
	for i, a := range l {
		if a.Src != src || a.Name != name {
			continue
		}
		for _, b := range l[i+1:] {
			if b.Src != src || b.Name != name || b.Hash == a.Hash {
				continue
			}
			ae, be := a.End, b.End
			if ae < 0 {
				ae = 1 << 30
			}
			if be < 0 {
				be = 1 << 30
			}
			if a.Begin <= be && b.Begin <= ae {
				return true
			}
		}
	}
	return false
}

func imax(a, b int) int {
	if a > b {
		return a
	}
	return b
}
