package main

// Monitors that ride on W1 runs: tiling (C11), queue order and predecessor
// chain (C10, C12 priority), wire round-trip (C13), acknowledged parts (C08),
// delivery order (C04), crash-specific checks (C06, C07).

import (
	"fmt"
	"os"
	"path/filepath"
	"regexp"
	"sort"
	"strings"

	"github.com/arm-doe/sts"
)

type rng struct{ Beg, End int64 }

// epoch: one push of a name into the queue
type allocEpoch struct {
	Name     string
	Hash     string
	Size     int64
	TimeNs   int64
	Expect   []rng // ranges that must be emitted, in order
	ri       int   // current range index
	pos      int64 // next expected offset
	started  bool
	complete bool
	placeholder bool
	pushStep int
	firstPop int
	firstPrev string // predecessor announced with the first chunk
	Prev     string // stored prev for recovered files
	recovered bool
	group    string
	tag      *TagCfg
	order    int // push order
	acked    map[string]bool // part keys acknowledged by the receiver in this epoch
	sentLogged bool
}

type w1mon struct {
	s       *Sim
	epochs  map[string]*allocEpoch // current epoch per name (per sender incarnation)
	all     []*allocEpoch
	inc     int
	completedInGroup map[string][]string // group -> names emitted completely (in order)
	placeInGroup     map[string][]string
	lastCompleted    map[string]string
	resendWhole map[string]bool
	heldAtBoot  map[string]string // name -> hash the receiver held complete when this incarnation booted
	txrecDone   int
	partialsAt  map[string]*sts.Partial
}

func (s *Sim) tagOf(name string) *TagCfg {
	tags := s.sc.Send.Tags
	for i := range tags {
		if tags[i].Pattern == "" {
			continue
		}
		if ok, _ := regexp.MatchString(tags[i].Pattern, name); ok {
			// options omitted for a tag take the value of the default (first) tag
			t := tags[i]
			d := tags[0]
			if t.Order == "" {
				t.Order = d.Order
			}
			if t.ChunkSize == 0 {
				t.ChunkSize = d.ChunkSize
			}
			if t.Priority == 0 {
				t.Priority = d.Priority
			}
			if !t.DeleteSet {
				t.Delete = d.Delete
			}
			if t.DeleteDelay == 0 {
				t.DeleteDelay = d.DeleteDelay
			}
			if t.LastDelay == 0 {
				t.LastDelay = d.LastDelay
			}
			return &t
		}
	}
	for i := range tags {
		if tags[i].Pattern == "" {
			return &tags[i]
		}
	}
	return nil
}

// groupOf: the intended grouping of the generated configuration.
func (s *Sim) groupOf(name string) string {
	gb := s.sc.Send.GroupBy
	if gb == "" {
		gb = `^([^\.]*)`
	}
	re := regexp.MustCompile(gb)
	m := re.FindStringSubmatch(name)
	if len(m) > 1 && m[1] != "" && m[1] != name {
		return m[1]
	}
	if t := s.tagOf(name); t != nil {
		return "tag:" + t.Pattern
	}
	return ""
}

func (s *Sim) chunkOf(name string) int64 {
	if t := s.tagOf(name); t != nil && t.ChunkSize > 0 {
		return t.ChunkSize
	}
	return s.sc.Send.BinSize
}

func orderOf(t *TagCfg) string {
	if t == nil || t.Order == "" {
		return "fifo"
	}
	return t.Order
}

func (s *Sim) installW1Oracles() {
	m := &w1mon{s: s}
	m.reset(0)
	s.mon = m
	s.hookPush = m.onPush
	s.hookPop = m.onPop
	s.hookTxBegin = m.onTxBegin
	s.hookTxEnd = m.onTxEnd
	s.hookSentLog = m.onSentLog
	s.hookReceived = m.onReceived
	s.hookScanListing = m.onScanListing
	s.finalHooks = append(s.finalHooks, m.final)
}

func (m *w1mon) reset(inc int) {
	m.inc = inc
	m.epochs = map[string]*allocEpoch{}
	m.completedInGroup = map[string][]string{}
	m.placeInGroup = map[string][]string{}
	m.lastCompleted = map[string]string{}
	m.resendWhole = map[string]bool{}
	m.partialsAt = map[string]*sts.Partial{}
}

func (m *w1mon) sync(n *SendNode) {
	if n.inc != m.inc {
		m.reset(n.inc)
	}
}

func missingRanges(p *sts.Partial, size int64) []rng {
	parts := make([]rng, 0, len(p.Parts))
	for _, x := range p.Parts {
		parts = append(parts, rng{x.Beg, x.End})
	}
	sort.Slice(parts, func(i, j int) bool { return parts[i].Beg < parts[j].Beg })
	var out []rng
	var pos int64
	for _, x := range parts {
		if x.Beg > pos {
			out = append(out, rng{pos, x.Beg})
		}
		if x.End > pos {
			pos = x.End
		}
	}
	if pos < size {
		out = append(out, rng{pos, size})
	}
	return out
}

func sumRanges(r []rng) int64 {
	var t int64
	for _, x := range r {
		t += x.End - x.Beg
	}
	return t
}

func (m *w1mon) onPush(n *SendNode, files []sts.Hashed) {
	s := m.s
	m.sync(n)
	m.applyTxRecovers()
	// latest partials listing of this incarnation
	for _, po := range s.ob.partials {
		if po.Inc == n.inc && po.Err == "" {
			for _, p := range po.List {
				m.partialsAt[p.Name] = p
			}
		}
	}
	for _, f := range files {
		e := &allocEpoch{Name: f.GetName(), Hash: f.GetHash(), Size: f.GetSize(), TimeNs: f.GetTime().UnixNano(), pushStep: s.step, firstPop: -1,
			group: s.groupOf(f.GetName()), tag: s.tagOf(f.GetName()), order: len(m.all), acked: map[string]bool{}}
		if r, ok := f.(sts.Recovered); ok {
			e.recovered = true
			e.Prev = r.GetPrev()
			if r.IsAllocated() {
				e.placeholder = true
				e.complete = true
			} else if r.GetSendSize() == f.GetSize() {
				e.Expect = []rng{{0, f.GetSize()}}
			} else if p := m.partialsAt[f.GetName()]; p != nil {
				e.Expect = missingRanges(p, f.GetSize())
				if s.on("C07", "C11") && sumRanges(e.Expect) != r.GetSendSize() {
					s.violate(s.sc.Prop, "resume-not-exactly-missing-ranges", "resumed file %s: send size %d but the ranges missing from the receiver's listing %v sum to %d", f.GetName(), r.GetSendSize(), e.Expect, sumRanges(e.Expect))
				}
			} else {
				e.Expect = nil // unknown; cannot judge
				e.placeholder = false
			}
		} else {
			e.Expect = []rng{{0, f.GetSize()}}
		}
		if len(e.Expect) > 0 {
			e.pos = e.Expect[0].Beg
		}
		// a later push of the name in this incarnation (retry after a failed or
		// missing verdict) legitimately sends the whole file again
		if m.epochs[e.Name] != nil {
			m.resendWhole[e.Name] = true
		} else if n.inc > 0 && s.on("C07") {
			if p := m.partialsAt[e.Name]; p != nil && p.Hash == e.Hash && p.Size == e.Size && !e.placeholder {
				if miss := missingRanges(p, e.Size); len(miss) > 0 && len(p.Parts) > 0 {
					if !e.recovered || sumRanges(e.Expect) != sumRanges(miss) {
						s.violate("C07", "resume-ignores-held-parts", "restarted sender queues %s for %d bytes although the receiver listed parts %v as held (missing %v)", e.Name, sumRanges(e.Expect), fmtParts(p), miss)
					}
				}
			}
		}
		if e.placeholder {
			m.placeInGroup[e.group] = append(m.placeInGroup[e.group], e.Name)
		}
		m.epochs[e.Name] = e
		m.all = append(m.all, e)
	}
}

func (m *w1mon) pendingInGroup(group string) []*allocEpoch {
	var out []*allocEpoch
	for _, e := range m.epochs {
		if e.group == group && !e.complete && !e.placeholder {
			out = append(out, e)
		}
	}
	sort.Slice(out, func(i, j int) bool { return out[i].order < out[j].order })
	return out
}

// before: does a precede b in the tag's configured order?
func before(order string, a, b *allocEpoch) bool {
	switch order {
	case "fifo":
		if a.TimeNs != b.TimeNs {
			return a.TimeNs < b.TimeNs
		}
		return a.Name < b.Name
	case "lifo":
		if a.TimeNs != b.TimeNs {
			return a.TimeNs > b.TimeNs
		}
		return a.Name < b.Name
	case "alpha":
		return a.Name < b.Name
	}
	return false
}

func (m *w1mon) onPop(n *SendNode, p *popObs) {
	s := m.s
	m.sync(n)
	e := m.epochs[p.Name]
	if e == nil {
		if s.on("C10", "C11") {
			s.violate(s.sc.Prop, "pop-of-unpushed-file", "queue emitted %s which was never pushed", p.Name)
		}
		return
	}
	first := !e.started
	if first {
		e.started = true
		e.firstPop = s.step
		e.firstPrev = p.Prev
	}
	// ---- C11: tiling
	if s.on("C11", "C07") && e.Expect != nil {
		prop := s.sc.Prop
		chunk := s.chunkOf(p.Name)
		switch {
		case p.Len <= 0:
			s.violate(prop, "empty-chunk", "queue emitted an empty chunk of %s at %d", p.Name, p.Beg)
		case p.Len > chunk:
			s.violate(prop, "chunk-too-large", "chunk %s[%d:+%d] exceeds the configured chunk size %d", p.Name, p.Beg, p.Len, chunk)
		case e.ri >= len(e.Expect):
			s.violate(prop, "chunk-beyond-file", "chunk %s[%d:+%d] emitted after the file was fully allocated (expected ranges %v)", p.Name, p.Beg, p.Len, e.Expect)
		case p.Beg != e.pos:
			s.violate(prop, "chunks-not-contiguous", "chunk %s[%d:+%d] but the next byte to emit is %d (expected ranges %v)", p.Name, p.Beg, p.Len, e.pos, e.Expect)
		case p.Beg+p.Len > e.Expect[e.ri].End:
			s.violate(prop, "chunk-crosses-range", "chunk %s[%d:+%d] runs past the end of range %v", p.Name, p.Beg, p.Len, e.Expect[e.ri])
		}
	}
	if e.Expect != nil && e.ri < len(e.Expect) {
		e.pos = p.Beg + p.Len
		if e.pos >= e.Expect[e.ri].End {
			e.ri++
			if e.ri < len(e.Expect) {
				e.pos = e.Expect[e.ri].Beg
			}
		}
		if e.ri >= len(e.Expect) {
			e.complete = true
		}
	}
	if s.on("C11") && p.Send != sumRanges(e.Expect) && e.Expect != nil {
		s.violate("C11", "send-size-mismatch", "chunk of %s announces send size %d, the ranges to send sum to %d", p.Name, p.Send, sumRanges(e.Expect))
	}
	// ---- C10: order and predecessor chain
	if s.on("C10", "C04", "C07") {
		prop := s.sc.Prop
		ord := orderOf(e.tag)
		if first && ord != "none" && s.on("C10") {
			for _, g := range m.pendingInGroup(e.group) {
				if g != e && !g.started && before(ord, g, e) {
					s.violate(prop, "emitted-out-of-order", "queue started %s before %s which precedes it in order %s of group %q and was already queued", e.Name, g.Name, ord, e.group)
				}
			}
		}
		switch {
		case ord == "none":
			if p.Prev != "" {
				s.violate(prop, "prev-on-unordered-tag", "%s announces predecessor %s although its tag is unordered", p.Name, p.Prev)
			}
		case p.Prev == p.Name:
			s.violate(prop, "prev-is-self", "%s names itself as predecessor", p.Name)
		case !first:
			// the predecessor is a property of the file, fixed with its first
			// chunk: the receiver records the one it sees first and waits for it
			if p.Prev != e.firstPrev {
				s.violate(prop, "prev-changed-mid-file", "chunk %s[%d:+%d] announces predecessor %q, the file's first chunk announced %q", p.Name, p.Beg, p.Len, p.Prev, e.firstPrev)
			}
		case e.recovered:
			if part := m.partialsAt[p.Name]; part != nil && e.Expect != nil && !(len(e.Expect) == 1 && e.Expect[0] == rng{0, e.Size} && part.Prev == "") {
				if p.Prev != e.Prev {
					s.violate(prop, "resumed-prev-changed", "resumed %s announces predecessor %q, it had announced %q", p.Name, p.Prev, e.Prev)
				}
			}
		case p.Prev == "":
			// allowed only for the first file of the group in this incarnation
			cg := m.completedInGroup[e.group]
			selfLast := len(cg) > 0 && cg[len(cg)-1] == e.Name
			// "none for the first file": a file that sorts before everything
			// emitted or placed so far is first in its group's order
			precededBy := false
			for _, nm := range append(append([]string{}, cg...), m.placeInGroup[e.group]...) {
				if g := m.epochs[nm]; g != nil && g != e && before(ord, g, e) {
					precededBy = true
				}
			}
			if (len(cg) > 0 || len(m.placeInGroup[e.group]) > 0) && !selfLast && precededBy && !m.resendWhole[e.Name] {
				if s.on("C10") {
					s.violate(prop, "missing-prev", "%s of group %q announces no predecessor although %v were emitted/placed before it", p.Name, e.group, append(m.completedInGroup[e.group], m.placeInGroup[e.group]...))
				}
			}
		default:
			ok := false
			for _, c := range m.completedInGroup[e.group] {
				if c == p.Prev {
					ok = true
				}
			}
			for _, c := range m.placeInGroup[e.group] {
				if c == p.Prev {
					ok = true
				}
			}
			if !ok {
				s.violate(prop, "prev-not-emitted", "%s announces predecessor %s which has neither been emitted completely nor queued as already sent in group %q", p.Name, p.Prev, e.group)
			} else if s.on("C10") && s.crashFree() && len(m.completedInGroup[e.group]) > 0 && first {
				last := m.completedInGroup[e.group][len(m.completedInGroup[e.group])-1]
				if p.Prev != last && !contains(m.placeInGroup[e.group], p.Prev) {
					s.violate(prop, "prev-not-most-recent", "%s announces predecessor %s, the most recently completed file of group %q is %s", p.Name, p.Prev, e.group, last)
				}
			}
		}
	}
	if e.complete {
		m.completedInGroup[e.group] = append(m.completedInGroup[e.group], e.Name)
	}
	// ---- C12 (priority part): nothing of lower priority while higher is ready
	if s.on("C12") && e.tag != nil {
		for _, o := range m.epochs {
			if o.complete || o.placeholder || o.tag == nil || o == e {
				continue
			}
			if o.tag.Priority > e.tag.Priority && o.tag.LastDelay == 0 {
				s.violate("C12", "lower-priority-first", "queue emitted a chunk of %s (priority %d) while %s (priority %d) had a chunk ready", e.Name, e.tag.Priority, o.Name, o.tag.Priority)
			}
		}
	}
}

func contains(xs []string, x string) bool {
	for _, y := range xs {
		if y == x {
			return true
		}
	}
	return false
}

func (s *Sim) crashFree() bool {
	return len(s.sendAll) <= 1
}

// ---- transmissions

func (m *w1mon) onTxBegin(n *SendNode, t *txObs) {
	s := m.s
	m.sync(n)
	m.applyTxRecovers()
	if s.on("C11") {
		var tot int64
		for _, p := range t.Parts {
			if p.End <= p.Beg {
				s.violate("C11", "empty-part", "payload contains empty part %s", p)
			}
			tot += p.End - p.Beg
		}
		allow := s.sc.Send.BinSize + s.sc.Send.BinSize/10
		if tot != t.Size {
			s.violate("C11", "payload-size-mismatch", "payload reports size %d, its parts sum to %d", t.Size, tot)
		}
		if tot > allow && !m.afterSplit(t) {
			s.violate("C11", "payload-exceeds-allowance", "payload of %d bytes exceeds bin size %d plus 10%%", tot, s.sc.Send.BinSize)
		}
	}
	for _, p := range t.Parts {
		e := m.epochs[p.Name]
		if e == nil || e.Hash != p.Hash {
			continue
		}
		if s.on("C08") && e.acked[p.key()] {
			s.violate("C08", "resent-acknowledged-part", "part %s is transmitted again although the receiver had acknowledged it (tx#%d)", p, t.ID)
		}
	}
	if s.on("C07") && n.inc > 0 {
		for _, p := range t.Parts {
			if m.resendWhole[p.Name] {
				continue
			}
			if part := m.partialsAt[p.Name]; part != nil && part.Hash == p.Hash {
				for _, r := range part.Parts {
					if p.Beg < r.End && r.Beg < p.End {
						s.violate("C07", "resent-held-range", "restarted sender transmits %s although the receiver listed [%d:%d) as held", p, r.Beg, r.End)
					}
				}
			}
			if h, ok := m.heldAtBoot[p.Name]; ok && h == p.Hash {
				s.violate("C07", "resent-complete-file", "restarted sender transmits %s although the receiver held that version complete at restart", p)
			}
		}
	}
}

// afterSplit: payloads produced by Split keep their parts; only judge fresh bins.
func (m *w1mon) afterSplit(t *txObs) bool { return false }

func (m *w1mon) ack(t *txObs, count int) {
	for i := 0; i < count && i < len(t.Parts); i++ {
		p := t.Parts[i]
		if e := m.epochs[p.Name]; e != nil && e.Hash == p.Hash {
			e.acked[p.key()] = true
		}
	}
}

func (m *w1mon) onTxEnd(n *SendNode, t *txObs) {
	s := m.s
	m.sync(n)
	switch {
	case t.Err == "":
		m.ack(t, len(t.Parts))
	case t.Err == "partial":
		m.ack(t, t.N)
	}
	// acknowledgements learned through data-recovery are applied in final()/lazily:
	_ = s
}

func (m *w1mon) applyTxRecovers() {
	s := m.s
	for ; m.txrecDone < len(s.ob.txrecs); m.txrecDone++ {
		r := s.ob.txrecs[m.txrecDone]
		if r.Inc != m.inc || r.Err != "" || r.N == 0 {
			continue
		}
		for i := 0; i < r.N && i < len(r.Parts); i++ {
			p := r.Parts[i]
			if e := m.epochs[p.Name]; e != nil && e.Hash == p.Hash {
				e.acked[p.key()] = true
			}
		}
	}
}

func (m *w1mon) onSentLog(n *SendNode, sl *sentLogObs) {
	s := m.s
	m.sync(n)
	m.applyTxRecovers()
	if !s.on("C08") {
		return
	}
	e := m.epochs[sl.Name]
	if e == nil || e.Hash != sl.Hash || e.Expect == nil {
		return
	}
	// every byte of the send ranges must be acknowledged
	var acked []rng
	for k := range e.acked {
		var nm, h string
		var b, en int64
		parts := strings.Split(k, "|")
		if len(parts) == 4 {
			nm, h = parts[0], parts[3]
			fmt.Sscan(parts[1], &b)
			fmt.Sscan(parts[2], &en)
			_ = nm
			_ = h
			acked = append(acked, rng{b, en})
		}
	}
	sort.Slice(acked, func(i, j int) bool { return acked[i].Beg < acked[j].Beg })
	for _, need := range e.Expect {
		pos := need.Beg
		for _, a := range acked {
			if a.Beg <= pos && a.End > pos {
				pos = a.End
			}
		}
		if pos < need.End {
			s.violate("C08", "sent-logged-before-all-acknowledged", "%s is written to the sent log although byte %d of range %v was never acknowledged by the receiver (acknowledged: %v)", sl.Name, pos, need, acked)
			return
		}
	}
}

// ---- receiver side

func (m *w1mon) onReceived(d *gkDeco, r *recvPartObs) {
	s := m.s
	if r.Err != "" {
		return
	}
	want := r.Desc.End - r.Desc.Beg
	if s.on("C13", "C09", "C01") && r.N != want {
		s.violate(s.sc.Prop, "short-part-recorded", "receiver recorded part %s after reading %d of %d bytes", r.Desc, r.N, want)
		return
	}
	if !s.on("C13") {
		return
	}
	// descriptor must be one the sender encoded
	found := false
	for _, t := range s.ob.tx {
		for _, p := range t.Parts {
			if p == r.Desc {
				found = true
			}
		}
	}
	if !found {
		s.violate("C13", "decoded-descriptor-not-encoded", "receiver decoded part %+v which the sender never encoded", r.Desc)
		return
	}
	// bytes: equal to the range of the announced version, or to what the encoder read
	if v := s.versionWithMD5(r.Desc.Name, r.Desc.Hash); v != nil {
		data := genContent(v.Seed, v.Size)
		if r.Desc.End <= int64(len(data)) && bytesMD5(data[r.Desc.Beg:r.Desc.End]) == r.MD5 {
			return
		}
	}
	for _, rd := range s.reads {
		if rd.Name == r.Desc.Name && rd.Pos == r.Desc.Beg && rd.MD5 == r.MD5 {
			return
		}
		// consecutive parts of one file are read in one go
		if rd.Name == r.Desc.Name && rd.Pos <= r.Desc.Beg && r.Desc.End <= rd.Pos+int64(len(rd.Data)) &&
			bytesMD5(rd.Data[r.Desc.Beg-rd.Pos:r.Desc.End-rd.Pos]) == r.MD5 {
			return
		}
	}
	if s.liveReadMatches(r.Desc.Name, r.Desc.Beg, r.Desc.End, r.MD5) {
		return // read through a handle the encoder still has open
	}
	if s.sourceEndedInside(r.Desc.Name, r.Desc.Beg, r.Desc.End) {
		s.stat("probe:part-of-shrunk-source")
		return
	}
	for _, rd := range s.reads {
		// the encoder reads a part in one open/seek; bytes read may extend beyond (never: it stops at end)
		if rd.Name == r.Desc.Name && rd.Pos == r.Desc.Beg && rd.N == want {
			s.violate("C13", "part-bytes-differ", "part %s: receiver got md5 %s, the encoder read md5 %s", r.Desc, short(r.MD5), short(rd.MD5))
			return
		}
	}
	var seen []string
	for _, rd := range s.reads {
		if rd.Name == r.Desc.Name && rd.Pos < r.Desc.End && r.Desc.Beg < rd.Pos+rd.N {
			seen = append(seen, fmt.Sprintf("[%d:+%d step %d]", rd.Pos, rd.N, rd.Step))
		}
	}
	s.violate("C13", "part-bytes-differ", "part %s: receiver got %d bytes md5 %s matching neither the announced version's range nor anything the encoder read (reads overlapping the range: %v)", r.Desc, r.N, short(r.MD5), seen)
}

// listing must only claim ranges whose bytes are really in the staged file
func (m *w1mon) onScanListing(d *gkDeco, list []*sts.Partial) {
	s := m.s
	if !s.on("C06", "C07", "C09") {
		return
	}
	for _, p := range list {
		v := s.versionWithMD5(p.Name, p.Hash)
		if v == nil {
			continue
		}
		data := genContent(v.Seed, v.Size)
		fp := filepath.Join(d.n.stageDir(), d.source, p.Name+".part")
		staged, err := os.ReadFile(fp)
		if err != nil {
			continue // complete files (.full/.wait) are not resumed from ranges
		}
		for _, r := range p.Parts {
			if r.End > int64(len(staged)) || r.End > int64(len(data)) || r.Beg < 0 || r.Beg > r.End {
				s.violate(s.sc.Prop, "listing-claims-unwritten-bytes", "partials listing claims %s[%d:%d) but the staged file has %d bytes", p.Name, r.Beg, r.End, len(staged))
				continue
			}
			if string(staged[r.Beg:r.End]) != string(data[r.Beg:r.End]) {
				s.violate(s.sc.Prop, "listing-claims-unwritten-bytes", "partials listing claims %s[%d:%d) but those staged bytes differ from the announced version %s", p.Name, r.Beg, r.End, short(p.Hash))
			}
		}
	}
}

func (m *w1mon) final() {
	s := m.s
	if s.on("C11") && s.settledFinal {
		for _, e := range m.all {
			if e.placeholder || e.Expect == nil {
				continue
			}
			if cur := m.epochs[e.Name]; cur != e {
				continue // superseded by a later push
			}
			if !e.complete {
				s.violate("C11", "file-not-fully-emitted", "the system settled but %s was only emitted up to byte %d of %v", e.Name, e.pos, e.Expect)
			}
		}
	}
	if s.on("C11") && s.sc.FaultFree && s.settledFinal && len(s.sc.Env) == 0 && s.noRequestFailed() {
		// every byte exactly once
		sent := map[string]int64{}
		for _, t := range s.ob.tx {
			for _, p := range t.Parts {
				sent[p.Name+"|"+p.Hash] += p.End - p.Beg
			}
		}
		for name, vs := range s.ob.versions {
			v := vs[len(vs)-1]
			if got := sent[name+"|"+v.MD5]; got != v.Size && s.eligible(name, v) {
				s.violate("C11", "bytes-not-sent-exactly-once", "fault-free run transmitted %d bytes of %s (size %d)", got, name, v.Size)
			}
		}
	}
	// a request that nothing interfered with is decoded: the receiver must not
	// refuse what the sender encoded (503 "not ready yet" is not a refusal)
	if s.on("C13") && s.sc.FaultFree && s.nFaults == 0 {
		for _, t := range s.ob.tx {
			if strings.HasPrefix(t.Err, "status") && t.Err != "status503" {
				s.violate("C13", "intact-request-refused", "data request tx#%d (%d parts, %d bytes) reached the receiver untouched and was answered %s", t.ID, len(t.Parts), t.Size, t.Err)
				break
			}
		}
	}
	// a chunk the queue emitted is cut into payload parts that cover it: none
	// of its bytes may get lost between queue and payload. Judged in runs
	// without faults (no retry can hold a payload back) for chunks emitted
	// long before the end, settled or not.
	if s.on("C11") && s.sc.FaultFree && s.nFaults == 0 && len(s.sc.Env) == 0 && s.crashFree() && s.ob.stopStep < 0 && s.noRequestFailed() {
		cov := map[string][]rng{}
		for _, t := range s.ob.tx {
			for _, p := range t.Parts {
				cov[p.Name+"|"+p.Hash] = append(cov[p.Name+"|"+p.Hash], rng{p.Beg, p.End})
			}
		}
		for _, p := range s.ob.pops {
			if p.Len <= 0 || p.Step+400 > s.step {
				continue
			}
			if !covered(cov[p.Name+"|"+p.Hash], p.Beg, p.Beg+p.Len) {
				s.violate("C11", "chunk-bytes-never-put-in-a-payload", "the queue emitted chunk %s[%d:+%d] at step %d; %d steps later no payload has carried all of its bytes (carried: %v)", p.Name, p.Beg, p.Len, p.Step, s.step-p.Step, cov[p.Name+"|"+p.Hash])
				break
			}
		}
	}
}

// ---- C04 end to end, evaluated at arrival

func (s *Sim) checkOrderAtArrival(n *RecvNode, a *arrival, name, hash string) {
	if !s.on("C04") || s.mon == nil {
		return
	}
	// announced predecessor of the completing part: any part of this version
	prevs := map[string]bool{}
	for _, t := range s.ob.tx {
		for _, p := range t.Parts {
			if p.Name == name && p.Hash == hash && p.Prev != "" && p.Prev != name {
				prevs[p.Prev] = true
			}
		}
	}
	for p := range prevs {
		ok := false
		for _, b := range s.ob.arrivals {
			if b != a && s.arrivalIsOf(b, p) {
				ok = true
			}
		}
		if !ok && s.logHas(n, s.sc.Send.Name, p, "") == 0 && len(prevs) == 1 {
			s.violate("C04", "delivered-before-predecessor", "%s arrived although its announced predecessor %s has neither arrived nor been logged", name, p)
		}
	}
	// end to end: files of the group that precede it in order and were queued when it was first emitted
	var me *allocEpoch
	for _, e := range s.mon.all {
		if e.Name == name && e.Hash == hash {
			me = e
			break
		}
	}
	if me == nil || me.firstPop < 0 || orderOf(me.tag) == "none" || len(s.sc.Env) > 0 {
		return
	}
	for _, g := range s.mon.all {
		if g == me || g.group != me.group || g.placeholder || g.pushStep > me.firstPop {
			continue
		}
		if g.order > me.order && g.pushStep == me.pushStep {
			// same batch: order decided by the comparator
		}
		if !before(orderOf(me.tag), g, me) {
			continue
		}
		v := s.versionWithMD5(g.Name, g.Hash)
		if v == nil {
			continue
		}
		arrivedG := false
		for _, b := range s.ob.arrivals {
			if b != a && b.MD5 == g.Hash && s.arrivalIsOf(b, g.Name) {
				arrivedG = true
			}
		}
		if !arrivedG {
			s.violate("C04", "delivered-out-of-order", "%s arrived before %s, which precedes it in order %s of group %q and was queued (step %d) before it was first emitted (step %d)", name, g.Name, orderOf(me.tag), me.group, g.pushStep, me.firstPop)
		}
	}
}
