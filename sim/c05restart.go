package main

// C05 after a receiver restart (W2): the in-memory record of deliveries is
// gone and is rebuilt from the receive log by start-up recovery. A scripted
// peer delivers a few files, the receiver is restarted (with nothing, or with
// an unrelated partial, left in the stage area), and files delivered before the
// restart are sent again - whole or a late part, with or without a question
// first. Nothing may be delivered or logged twice, a late part must not
// resurrect a delivered file as a partial, and a question about a delivered
// file is answered "known".

import (
	"fmt"
	"math/rand/v2"
	"path/filepath"
	"time"

	"github.com/arm-doe/sts"
)

func genC05Restart(seed uint64) *Scenario {
	sc, _ := baseW2("C05", seed)
	g := &gen{r: rand.New(rand.NewPCG(seed, 0x505b))}
	sc.Extra = map[string]any{"c05restart": true}
	sc.MaxInFlight = 1 + g.n(2)
	sc.Settle = time.Minute
	n := 2 + g.n(5)
	for i := 0; i < n; i++ {
		sc.PeerFiles = append(sc.PeerFiles, PeerFile{Name: fmt.Sprintf("r%d/f%d.dat", g.n(2), i), Size: int64(2 + g.n(1500)), Seed: g.u64(), TimeS: int64(300 + g.n(5000))})
	}
	sc.Peer = append(sc.Peer, PeerOp{Kind: "poll", Source: "src1", Names: []string{"nothing"}, Sync: true})
	for i := 0; i < n; i++ {
		sc.Peer = append(sc.Peer, PeerOp{Kind: "data", Source: "src1", Parts: []PeerPart{{i, 0, sc.PeerFiles[i].Size}}})
	}
	sc.Peer = append(sc.Peer, PeerOp{Kind: "settle", Sync: true})
	if g.pct(40) {
		// something unrelated is left in the stage area
		sc.PeerFiles = append(sc.PeerFiles, PeerFile{Name: "other.dat", Size: 900, Seed: g.u64(), TimeS: 100})
		sc.Peer = append(sc.Peer, PeerOp{Kind: "data", Source: "src1", Parts: []PeerPart{{n, 0, 300}}, Sync: true})
	}
	if g.pct(30) {
		sc.Peer = append(sc.Peer, PeerOp{Kind: "wait", Dur: g.dur(time.Minute, 2*time.Hour, 20*time.Hour), Sync: true})
	}
	sc.Peer = append(sc.Peer, PeerOp{Kind: "crash", Sync: true})
	for k := 0; k < 2+g.n(4); k++ {
		x := g.n(n)
		f := sc.PeerFiles[x]
		whole := PeerOp{Kind: "data", Source: "src1", Parts: []PeerPart{{x, 0, f.Size}}, Sync: true}
		late := PeerOp{Kind: "data", Source: "src1", Parts: []PeerPart{{x, 0, 1 + int64(g.n(int(f.Size-1)))}}, Sync: true}
		switch g.n(5) {
		case 0:
			sc.Peer = append(sc.Peer, PeerOp{Kind: "poll", Source: "src1", Names: []string{f.Name}, Sync: true}, whole)
		case 1:
			sc.Peer = append(sc.Peer, PeerOp{Kind: "recovery", Source: "src1", Parts: whole.Parts, Sync: true}, whole)
		case 2:
			sc.Peer = append(sc.Peer, whole)
		case 3:
			sc.Peer = append(sc.Peer, late)
		case 4:
			sc.Peer = append(sc.Peer, late, whole)
		}
		if g.pct(40) {
			sc.Peer = append(sc.Peer, PeerOp{Kind: "partials", Source: "src1", Sync: true})
		}
	}
	sc.Peer = append(sc.Peer, PeerOp{Kind: "settle", Sync: true})
	sc.Peer = append(sc.Peer, PeerOp{Kind: "partials", Source: "src1", Sync: true})
	sc.Peer = append(sc.Peer, PeerOp{Kind: "poll", Source: "src1", Names: []string{sc.PeerFiles[0].Name}, Sync: true})
	sc.Peer = append(sc.Peer, PeerOp{Kind: "wait", Dur: 30 * time.Second, Sync: true})
	return sc
}

// c05Listing: "late parts never resurrect it" - a version that has been
// delivered must not show up in the listing of partly received files.
func (s *Sim) c05Listing(d *gkDeco, list []*sts.Partial) {
	if !s.on("C05") || s.sc.Mode != "w2" || s.w2m == nil {
		return
	}
	for _, p := range list {
		if s.w2m.delivered(d.source, p.Name, p.Hash) {
			// (it is listed from its companion on disk; make sure that is what is there)
			if cur := readCmp(filepath.Join(d.n.stageDir(), d.source, p.Name+".cmp")); cur != nil && cur.Hash == p.Hash {
				s.violate("C05", "delivered-file-listed-as-partial", "the partials listing names %s (version %s, parts %s) although that version has been delivered: a late part has started a new partial of it", p.Name, short(p.Hash), fmtParts(p))
			}
		}
	}
}
