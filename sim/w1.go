package main

// World W1: real sender and real receiver end to end.

import (
	"fmt"
	"os"
	"path/filepath"
	"sort"
	"strings"
	"time"

	"github.com/arm-doe/sts"
)

// extra Sim state (kept here to keep core.go small)
type simExtra struct{}

func (s *Sim) runW1() {
	sc := s.sc
	os.MkdirAll(s.world.outDir, 0755)
	for _, f := range sc.Files {
		s.world.write(f, false)
	}
	for _, a := range sc.Env {
		cp := *a
		s.addEnv(&cp)
	}
	s.sendCrashAt = sc.SendCrashAt
	s.sendCrashLabel = sc.SendCrashLabel
	s.stopAt = sc.StopAt
	s.stopGraceful = sc.StopGraceful
	s.armNextRecvCrash()
	if len(sc.RecvErrAt) > 0 {
		s.installRecvErr(sc.RecvErrAt)
	}
	s.installW1Oracles()
	s.installC17()
	s.installC20()
	s.installOperator()
	s.bootReceiver(filepath.Join(s.ws, "r0"), 0)
	s.bootSender(filepath.Join(s.ws, "s0"), 0)
	if sc.OneShot {
		// as app.run does for a one-shot sender: stop gracefully right after start
		s.requestStop(s.send, true)
		s.ob.onStopRequested(s.send)
	}
	s.runLoop()
	s.finalChecks()
}

func (s *Sim) armNextRecvCrash() {
	s.mu.Lock()
	defer s.mu.Unlock()
	s.crashArmed = map[string]int{}
	if s.recvCrashIdx < len(s.sc.RecvCrash) {
		c := s.sc.RecvCrash[s.recvCrashIdx]
		s.recvCrashIdx++
		// occurrence counts continue across incarnations: count relative to now
		s.crashArmed[c.Label] = s.crashLabels[c.Label] + c.K
	}
}

// installRecvErr makes the k-th Receive calls fail for real: the .part file is
// removed right before the receiver opens it.
func (s *Sim) installRecvErr(at []int) {
	want := map[int]bool{}
	for _, k := range at {
		want[k] = true
	}
	cnt := 0
	s.pointActions["stage.receive.begin"] = func(n *RecvNode, path string) {
		s.mu.Lock()
		cnt++
		hit := want[cnt]
		s.mu.Unlock()
		if hit {
			// make this one Receive fail for real (the receiver cannot open
			// the staged file) without destroying what was received so far:
			// the file is hidden for the rest of this segment only
			if err := os.Rename(path+".part", path+".part.hidden"); err == nil {
				s.stat("fault:recv-part-unopenable")
				s.noteFault()
				s.observe("hid %s.part for this receive", s.rel(path))
				s.mu.Lock()
				s.hidden = append(s.hidden, path)
				s.mu.Unlock()
			}
		}
	}
	s.stepHooks = append(s.stepHooks, func() {
		s.mu.Lock()
		h := s.hidden
		s.hidden = nil
		s.mu.Unlock()
		for _, p := range h {
			if _, err := os.Stat(p + ".part"); err == nil {
				os.Remove(p + ".part.hidden") // a fresh .part was created meanwhile
				continue
			}
			os.Rename(p+".part.hidden", p+".part")
		}
	})
}

// expected returns, per source name, the version that must end up delivered.
func (s *Sim) expectedVersions() map[string]*srcVersion {
	out := map[string]*srcVersion{}
	for name, vs := range s.ob.versions {
		if len(vs) == 0 {
			continue
		}
		v := vs[len(vs)-1]
		if s.envDeleted[name] {
			continue
		}
		if !s.eligible(name, v) {
			continue
		}
		out[name] = v
	}
	return out
}

func (s *Sim) eligible(name string, v *srcVersion) bool {
	if s.eligibleFn != nil {
		return s.eligibleFn(name, v)
	}
	return v.Size > 0
}

func (s *Sim) arrived(name string, v *srcVersion) bool {
	for _, a := range s.ob.arrivals {
		if a.MD5 == v.MD5 && s.arrivalIsOf(a, name) {
			return true
		}
	}
	// sts tells versions apart by size and modification time: a version that
	// has both in common with an earlier one (rewritten in place with the time
	// restored, or touched back to the old time) cannot be told from it, and
	// the delivery of that one is all that can be asked for
	for _, u := range s.ob.versions[name] {
		if u != v && u.Size == v.Size && u.Mtime.Equal(v.Mtime) {
			for _, a := range s.ob.arrivals {
				if a.MD5 == u.MD5 && s.arrivalIsOf(a, name) {
					return true
				}
			}
		}
	}
	return false
}

// arrivalIsOf: does the arrival path correspond to source name (directly or
// through an announced rename)?
func (s *Sim) arrivalIsOf(a *arrival, name string) bool {
	src := s.sc.Send.Name
	rel := strings.TrimPrefix(a.Path, src+"/")
	if rel == name {
		return true
	}
	for _, t := range s.ob.tx {
		for _, p := range t.Parts {
			if p.Name == name && p.Renamed != "" && p.Renamed == rel {
				return true
			}
		}
	}
	return false
}

type settleReport struct {
	ok     bool
	reason string
}

func (s *Sim) settled() settleReport {
	if len(s.pendingEnv()) > 0 {
		return settleReport{false, "env pending"}
	}
	if s.recv == nil {
		return settleReport{false, "receiver down"}
	}
	stopMode := s.ob.stopStep >= 0
	if s.send == nil {
		return settleReport{false, "sender down"}
	}
	if stopMode {
		if !s.send.exited.Load() {
			return settleReport{false, "sender not exited after stop"}
		}
		return settleReport{true, ""}
	}
	exp := s.expectedVersions()
	names := make([]string, 0, len(exp))
	for n := range exp {
		names = append(names, n)
	}
	sort.Strings(names)
	for _, name := range names {
		v := exp[name]
		if !s.arrived(name, v) {
			return settleReport{false, "not arrived: " + name + " " + short(v.MD5) + " " + s.whereIs(name)}
		}
		c := s.send.deco.cache.Get(name)
		if c != nil && !c.IsDone() {
			return settleReport{false, "not done in cache: " + name}
		}
		if c == nil {
			if _, err := os.Stat(s.world.path(name)); err == nil {
				return settleReport{false, "not in cache but on disk: " + name}
			}
		}
	}
	for _, f := range s.listStage(s.recv) {
		switch f.Ext {
		case ".full", ".wait":
			return settleReport{false, "staged: " + f.Rel}
		}
	}
	if s.net.liveConns() > 0 {
		return settleReport{false, "connections open"}
	}
	return settleReport{true, ""}
}

// whereIs describes where an undelivered file sits (diagnosis for C03).
func (s *Sim) whereIs(name string) string {
	var b strings.Builder
	if s.send != nil {
		if c := s.send.deco.cache.Get(name); c != nil {
			fmt.Fprintf(&b, "cache{done=%v hash=%s} ", c.IsDone(), short(c.GetHash()))
		} else {
			b.WriteString("cache{absent} ")
		}
	}
	if s.recv != nil {
		for _, f := range s.listStage(s.recv) {
			if strings.Contains(f.Rel, name) {
				fmt.Fprintf(&b, "stage{%s} ", f.Rel)
			}
		}
	}
	return b.String()
}

// afterQuiesce runs at every quiescent point, before the next decision.
func (s *Sim) afterQuiesce() {
	if n := s.recv; n != nil && n.dirty.Swap(false) {
		s.restamp(n)
		s.scanFinal(n)
	}
	for _, h := range s.stepHooks {
		h()
	}
	if s.sc.Mode != "w1" {
		return
	}
	// receiver crash directives: arm the next one after a reboot
	if s.recv != nil && len(s.crashArmed) == 0 && s.recvCrashIdx < len(s.sc.RecvCrash) && s.recv.inc == s.recvCrashIdx {
		s.armNextRecvCrash()
	}
	r := s.settled()
	if r.ok {
		if s.settledAt.IsZero() {
			s.settledAt = time.Now()
			s.settledStep = s.step
		}
		cool := 2*s.sc.Send.ScanDelay + 2*s.sc.Send.PollInterval + 15*time.Second
		if time.Since(s.settledAt) >= cool {
			s.ended = true
			s.settledFinal = true
		}
	} else {
		s.settledAt = time.Time{}
		s.unsettledWhy = r.reason
		// liveness bound
		if time.Since(s.lastFaultTime) > s.sc.Settle && len(s.pendingEnv()) == 0 {
			s.ended = true
		}
	}
}

func (s *Sim) finalChecks() {
	s.inconclusive = !s.settledFinal && time.Since(s.lastFaultTime) <= s.sc.Settle
	if s.inconclusive {
		s.stat("inconclusive")
	}
	s.finalOracles()
}

var _ = sts.ConfirmNone
