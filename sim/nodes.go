package main

// Nodes: booting, crashing and restarting the real sender and receiver
// through the package-main wiring of sts.

import (
	"fmt"
	"io"
	"os"
	"path/filepath"
	"sort"
	"strings"
	"sync"
	"sync/atomic"
	"testing/synctest"
	"time"

	"github.com/arm-doe/sts"
	"github.com/arm-doe/sts/fileutil"
	stshttp "github.com/arm-doe/sts/http"
)

type RecvNode struct {
	s         *Sim
	inc       int
	root      string
	dead      atomic.Bool
	app       *serverApp
	stop      chan bool
	done      chan bool
	listeners []*simListener
	gks       map[string]*gkDeco
	dirty     atomic.Bool
	bootStep  int
	recovering sync.Map // source -> true while its start-up recovery has not finished
	pending    *recoverPending // completely received files start-up recovery has to validate
}

func (n *RecvNode) isDead() bool     { return n.dead.Load() }
func (n *RecvNode) nodeName() string { return fmt.Sprintf("r%d", n.inc) }
func (n *RecvNode) stageDir() string { return filepath.Join(n.root, "stage") }
func (n *RecvNode) finalDir() string { return filepath.Join(n.root, "final") }
func (n *RecvNode) logInDir() string { return filepath.Join(n.root, "logs", "incoming_from") }

type SendNode struct {
	s       *Sim
	inc     int
	root    string
	dead    atomic.Bool
	capp    *clientApp
	stop    chan bool
	done    chan bool
	actions int
	stopped bool // stop requested
	exited  atomic.Bool
	exitStep int
	deco    *senderDeco
}

func (n *SendNode) isDead() bool     { return n.dead.Load() }
func (n *SendNode) nodeName() string { return fmt.Sprintf("s%d", n.inc) }

func mkInitPath(root string) func(*string, bool) error {
	return func(p *string, isDir bool) error {
		var err error
		*p, err = fileutil.InitPath(root, *p, isDir)
		return err
	}
}

func dur(d time.Duration) string { return d.String() }

func (s *Sim) recvYAML(root string) string {
	c := s.sc.Recv
	var b strings.Builder
	b.WriteString("IN:\n")
	if len(c.Sources) > 0 {
		b.WriteString("  sources:\n")
		for _, x := range c.Sources {
			fmt.Fprintf(&b, "    - %q\n", x)
		}
	}
	if len(c.Keys) > 0 {
		b.WriteString("  keys:\n")
		for _, x := range c.Keys {
			fmt.Fprintf(&b, "    - %q\n", x)
		}
	}
	fmt.Fprintf(&b, "  dirs:\n    logs: %s\n    stage: %s\n    final: %s\n    serve: %s\n",
		filepath.Join(root, "logs"), filepath.Join(root, "stage"), filepath.Join(root, "final"), filepath.Join(root, "serve"))
	fmt.Fprintf(&b, "  server:\n    http-host: recv\n    http-port: 1992\n    compress: %d\n", c.Compression)
	return b.String()
}

func (s *Sim) sendYAML(root string) string {
	c := s.sc.Send
	var b strings.Builder
	b.WriteString("OUT:\n")
	fmt.Fprintf(&b, "  dirs:\n    cache: %s\n    logs: %s\n    out: %s\n", filepath.Join(root, "cache"), filepath.Join(root, "logs"), filepath.Join(s.ws, "outroot"))
	if c.OutFollow {
		b.WriteString("    out-follow: true\n")
	}
	b.WriteString("  sources:\n")
	fmt.Fprintf(&b, "    - name: %s\n", c.Name)
	fmt.Fprintf(&b, "      out-dir: %s\n", s.world.outDir)
	fmt.Fprintf(&b, "      threads: %d\n", c.Threads)
	fmt.Fprintf(&b, "      bin-size: %dB\n", c.BinSize)
	fmt.Fprintf(&b, "      compress: %d\n", c.Compression)
	fmt.Fprintf(&b, "      min-age: %s\n", dur(c.MinAge))
	fmt.Fprintf(&b, "      scan-delay: %s\n", dur(c.ScanDelay))
	fmt.Fprintf(&b, "      cache-age: %s\n", dur(c.CacheAge))
	fmt.Fprintf(&b, "      timeout: %s\n", dur(c.Timeout))
	fmt.Fprintf(&b, "      stat-interval: 1h\n")
	fmt.Fprintf(&b, "      poll-delay: %s\n", dur(c.PollDelay))
	fmt.Fprintf(&b, "      poll-interval: %s\n", dur(c.PollInterval))
	fmt.Fprintf(&b, "      poll-attempts: %d\n", c.PollAttempts)
	fmt.Fprintf(&b, "      poll-max-count: %d\n", c.PollMaxCount)
	fmt.Fprintf(&b, "      error-backoff: %q\n", c.ErrorBackoff)
	if c.GroupBy != "" {
		fmt.Fprintf(&b, "      group-by: %q\n", c.GroupBy)
	}
	if c.IncludeHidden {
		b.WriteString("      include-hidden: \"true\"\n")
	}
	if len(c.Include) > 0 {
		b.WriteString("      include:\n")
		for _, x := range c.Include {
			fmt.Fprintf(&b, "        - %q\n", x)
		}
	}
	if len(c.Ignore) > 0 {
		b.WriteString("      ignore:\n")
		for _, x := range c.Ignore {
			fmt.Fprintf(&b, "        - %q\n", x)
		}
	}
	fmt.Fprintf(&b, "      target:\n        name: tgt\n        http-host: \"recv:1992\"\n        protocol: http\n")
	if c.Key != "" {
		fmt.Fprintf(&b, "        key: %q\n", c.Key)
	}
	if len(c.Rename) > 0 {
		b.WriteString("      rename:\n")
		for _, r := range c.Rename {
			fmt.Fprintf(&b, "        - from: %q\n          to: %q\n", r.From, r.To)
		}
	}
	b.WriteString("      tags:\n")
	for _, t := range c.Tags {
		pat := t.Pattern
		if pat == "" {
			pat = "DEFAULT"
		}
		fmt.Fprintf(&b, "        - pattern: %q\n", pat)
		fmt.Fprintf(&b, "          priority: %d\n", t.Priority)
		if t.Order != "" {
			fmt.Fprintf(&b, "          order: %s\n", t.Order)
		}
		if t.Method != "" {
			fmt.Fprintf(&b, "          method: %s\n", t.Method)
		}
		if t.ChunkSize > 0 {
			fmt.Fprintf(&b, "          chunk-size: %dB\n", t.ChunkSize)
		}
		if t.DeleteSet {
			fmt.Fprintf(&b, "          delete: \"%v\"\n", t.Delete)
		}
		if t.DeleteDelay > 0 {
			fmt.Fprintf(&b, "          delete-delay: %s\n", dur(t.DeleteDelay))
		}
		if t.LastDelay > 0 {
			fmt.Fprintf(&b, "          last-delay: %s\n", dur(t.LastDelay))
		}
	}
	return b.String()
}

func (s *Sim) bootReceiver(root string, inc int) *RecvNode {
	n := &RecvNode{s: s, inc: inc, root: root, gks: map[string]*gkDeco{}, bootStep: s.step}
	os.MkdirAll(root, 0755)
	cp := filepath.Join(root, "conf.yaml")
	if err := os.WriteFile(cp, []byte(s.recvYAML(root)), 0644); err != nil {
		panic(err)
	}
	conf, err := sts.NewConf(cp)
	if err != nil {
		panic(fmt.Sprintf("receiver conf: %v", err))
	}
	if err = sts.InitPaths(conf, filepath.Join, mkInitPath(root)); err != nil {
		panic(err)
	}
	s.recv = n
	s.recvAll = append(s.recvAll, n)
	if ents, err := os.ReadDir(n.stageDir()); err == nil {
		for _, e := range ents {
			if e.IsDir() {
				n.recovering.Store(e.Name(), true) // serverApp.init starts Recover() for it
			}
		}
	}
	n.pending = snapshotRecoverPending(n.stageDir())
	if len(n.pending.paths) > 0 {
		s.stat("probe:recovery-has-files-to-validate")
	}
	stshttp.DefaultServer = nil
	sa := &serverApp{conf: conf.Server}
	if err = sa.init(); err != nil {
		panic(fmt.Sprintf("receiver init: %v", err))
	}
	n.app = sa
	// decorate the gatekeepers created for existing stage dirs, and the factory
	for name, gk := range sa.server.GateKeepers {
		sa.server.GateKeepers[name] = s.wrapGK(n, name, gk)
	}
	factory := sa.server.GateKeeperFactory
	sa.server.GateKeeperFactory = func(source string) sts.GateKeeper {
		s.stat("probe:gk-factory")
		return s.wrapGK(n, source, factory(source))
	}
	n.stop = make(chan bool)
	n.done = make(chan bool)
	go sa.server.Serve(n.stop, n.done)
	s.stat("boot:receiver")
	return n
}

func (s *Sim) bootSender(root string, inc int) *SendNode {
	n := &SendNode{s: s, inc: inc, root: root}
	os.MkdirAll(root, 0755)
	cp := filepath.Join(root, "conf.yaml")
	if err := os.WriteFile(cp, []byte(s.sendYAML(root)), 0644); err != nil {
		panic(err)
	}
	conf, err := sts.NewConf(cp)
	if err != nil {
		panic(fmt.Sprintf("sender conf: %v\n%s", err, s.sendYAML(root)))
	}
	if err = sts.InitPaths(conf, filepath.Join, mkInitPath(root)); err != nil {
		panic(err)
	}
	dirs := conf.Client.Dirs
	c := &clientApp{conf: conf.Client.Sources[0], dirCache: dirs.Cache, dirOutFollow: dirs.OutFollow}
	if err = c.init(); err != nil {
		panic(fmt.Sprintf("sender init: %v", err))
	}
	n.capp = c
	n.deco = s.decorateSender(n, c)
	n.stop = make(chan bool)
	n.done = make(chan bool)
	s.send = n
	s.sendAll = append(s.sendAll, n)
	if s.mon != nil && inc > 0 {
		// what the receiving side holds complete (validated or delivered) at restart
		s.mon.heldAtBoot = map[string]string{}
		for name, v := range s.expectedVersions() {
			if ok, _ := s.receiverHoldsValidated(name, v.MD5); ok {
				s.mon.heldAtBoot[name] = v.MD5
			}
		}
	}
	go func() {
		c.broker.Start(n.stop, n.done)
	}()
	go func() {
		<-n.done
		if n.isDead() {
			// a crashed sender winding down: when (and whether) it gets here
			// depends on races inside the dead process; it must not wake the
			// scheduler out of a time step
			return
		}
		n.exited.Store(true)
		s.mu.Lock()
		n.exitStep = s.step
		s.mu.Unlock()
		s.signalWake()
	}()
	s.stat("boot:sender")
	return n
}

// requestStop asks the sender to stop; non-blocking for the scheduler.
func (s *Sim) requestStop(n *SendNode, graceful bool) {
	if n.stopped {
		return
	}
	n.stopped = true
	go func() { n.stop <- graceful }()
	// The request is an event of its own: let the broker's stop goroutine set
	// its flag and run into its next blocking point before anything else is
	// released, otherwise it races with the action released in the same step.
	synctest.Wait()
}

func copyTree(src, dst string, skip func(rel string) bool) error {
	return filepath.Walk(src, func(p string, info os.FileInfo, err error) error {
		if err != nil {
			return nil
		}
		rel, _ := filepath.Rel(src, p)
		if skip != nil && skip(rel) {
			if info.IsDir() {
				return filepath.SkipDir
			}
			return nil
		}
		t := filepath.Join(dst, rel)
		if info.IsDir() {
			os.MkdirAll(t, 0755)
			return nil
		}
		if !info.Mode().IsRegular() {
			return nil
		}
		in, err := os.Open(p)
		if err != nil {
			return nil
		}
		defer in.Close()
		out, err := os.Create(t)
		if err != nil {
			return err
		}
		io.Copy(out, in)
		out.Close()
		os.Chtimes(t, info.ModTime(), info.ModTime())
		return nil
	})
}

// fix directory mtimes after a copy (copying children changes them)
func copyDirTimes(src, dst string) {
	var dirs []string
	filepath.Walk(src, func(p string, info os.FileInfo, err error) error {
		if err == nil && info.IsDir() {
			dirs = append(dirs, p)
		}
		return nil
	})
	sort.Sort(sort.Reverse(sort.StringSlice(dirs)))
	for _, d := range dirs {
		info, err := os.Stat(d)
		if err != nil {
			continue
		}
		rel, _ := filepath.Rel(src, d)
		os.Chtimes(filepath.Join(dst, rel), info.ModTime(), info.ModTime())
	}
}

// crashReceiver kills the current receiver incarnation: the crash image is
// the durable tree as it is right now. May be called from a SUT goroutine at
// a crash point or from the scheduler.
func (s *Sim) crashReceiver(why string, downFor time.Duration) {
	old := s.recv
	if old == nil || old.isDead() {
		return
	}
	s.restamp(old)
	old.dead.Store(true)
	newRoot := filepath.Join(filepath.Dir(old.root), fmt.Sprintf("r%d", old.inc+1))
	if err := copyTree(old.root, newRoot, func(rel string) bool { return rel == "conf.yaml" }); err != nil {
		s.troublef("crash copy: %v", err)
	}
	if t, _ := s.sc.Extra["torn"].(bool); t {
		s.tearTail(newRoot, why)
	}
	copyDirTimes(old.root, newRoot)
	for _, l := range old.listeners {
		s.net.unlisten(l)
	}
	s.net.cutAllOf(old)
	s.recv = nil
	s.ob.onReceiverCrash(old, why)
	s.stat("crash:receiver")
	s.stat("crashat:" + why)
	s.noteFault()
	s.addEnv(&envAction{Kind: "boot-receiver", At: time.Since(s.epoch) + downFor, arg: newRoot, n: old.inc + 1})
	s.signalWake()
}

// crashSender is called by the scheduler between two sender actions.
func (s *Sim) crashSender(why string, downFor time.Duration) {
	old := s.send
	if old == nil || old.isDead() {
		return
	}
	old.dead.Store(true)
	newRoot := filepath.Join(s.ws, fmt.Sprintf("s%d", old.inc+1))
	if err := copyTree(old.root, newRoot, func(rel string) bool { return rel == "conf.yaml" }); err != nil {
		s.troublef("crash copy: %v", err)
	}
	s.net.cutAllFrom("sender")
	s.send = nil
	// let the zombie wind down its timer loops; it cannot act any more
	go func() { old.stop <- false }()
	old.capp.destroy()
	s.ob.onSenderCrash(old, why)
	s.stat("crash:sender")
	s.noteFault()
	s.addEnv(&envAction{Kind: "boot-sender", At: time.Since(s.epoch) + downFor, arg: newRoot, n: old.inc + 1})
}

// shutdownAll fences every node at the end of a run so that the bubble can end.
func (s *Sim) shutdownAll() {
	for _, n := range s.recvAll {
		n.dead.Store(true)
		for _, l := range n.listeners {
			s.net.unlisten(l)
			l.Close()
		}
		s.net.cutAllOf(n)
	}
	for _, n := range s.sendAll {
		wasDead := n.dead.Swap(true)
		if !wasDead {
			if !n.stopped {
				n.stopped = true
				go func(n *SendNode) { n.stop <- false }(n)
			}
			n.capp.destroy()
		}
	}
	s.net.cutAllFrom("sender")
	s.net.cutAllFrom("peer")
	s.killDeadGates()
}
