package main

// Shared observation layer: everything the oracles look at is recorded here,
// stamped with the scheduler step.

import (
	"bufio"
	"crypto/md5"
	"encoding/hex"
	"encoding/json"
	"fmt"
	"io"
	"os"
	"path/filepath"
	"sort"
	"strconv"
	"strings"
	"time"

	"github.com/arm-doe/sts"
)

type srcVersion struct {
	Name     string
	MD5      string
	Size     int64
	Mtime    time.Time
	Step     int
	GoneStep int // -1 while current
	Seed     uint64
	FakeAt   time.Duration
}

type arrival struct {
	Path   string // relative to final/<source>
	MD5    string
	Size   int64
	Step   int
	Inc    int
	Logged bool
}

type txObs struct {
	ID      int
	Inc     int
	Step    int
	EndStep int
	Parts   []partDesc
	Sends   []int64
	Size    int64
	N       int
	Err     string
	Done    bool
	ReadMD5 []string // per part: md5 of the bytes the encoder read (filled by wrapReadable)
}

type pollObs struct {
	ID      int
	Inc     int
	Step    int
	EndStep int
	Names   []string
	Started []int64
	Answer  map[string]int
	Err     string
	Done    bool
}

type recvPartObs struct {
	Step  int
	Inc   int
	Src   string
	Desc  partDesc
	N     int64
	MD5   string
	Err   string
}

type statusObs struct {
	Step int
	Inc  int
	Name string
	Code int
}

type popObs struct {
	Step     int
	Inc      int
	Name     string
	Hash     string
	Prev     string
	Beg, Len int64
	Send     int64
	Size     int64
	TimeNs   int64
}

type pushObs struct {
	Step      int
	Inc       int
	Name      string
	Hash      string
	Size      int64
	TimeNs    int64
	Recovered bool
	Prev      string
	SendSize  int64
	Allocated bool
}

type removeObs struct {
	Step int
	Inc  int
	Name string
	MD5  string // md5 of the file at that instant ("" if missing)
}

type doneObs struct {
	Step    int
	Inc     int
	Name    string
	MD5     string
	WasDone bool
	Hash    string // hash in the cache entry
}

type sentLogObs struct {
	Step int
	Inc  int
	Name string
	Hash string
	Size int64
}

type scanObs struct {
	Step  int
	Inc   int
	Start time.Time
	Names []string
	Sizes []int64
	Times []int64
}

type partialsObs struct {
	Step int
	Inc  int
	List []*sts.Partial
	Err  string
}

type recvQueryObs struct {
	Step  int
	Inc   int
	Parts []partDesc
	N     int
}

type txRecObs struct {
	Step  int
	Inc   int
	Parts []partDesc
	N     int
	Err   string
}

type logLine struct {
	Name, Renamed, Hash string
	Size, Time          int64
}

type Obs struct {
	s *Sim

	versions map[string][]*srcVersion
	arrivals []*arrival
	tx       []*txObs
	polls    []*pollObs
	recvd    []*recvPartObs
	prepares [][]partDesc
	status   []*statusObs
	pops     []*popObs
	pushes   []*pushObs
	removes  []*removeObs
	dones    []*doneObs
	sentLogs []*sentLogObs
	scans    []*scanObs
	partials []*partialsObs
	queries  []*recvQueryObs
	txrecs   []*txRecObs
	cacheAdds []pushObs
	crashes  []string
	corrupted []string
	pointLog []string

	logDupAllowed map[string]int // name|hash -> extra log lines allowed (crash between log and move)
	putLogged     map[string]bool // stage path currently between put.logged and move.done
	readSeq       map[*txObs]int
	curTx         map[string]*txObs
	stopStep      int
}

func newObs(s *Sim) *Obs {
	return &Obs{s: s, versions: map[string][]*srcVersion{}, logDupAllowed: map[string]int{}, putLogged: map[string]bool{}, stopStep: -1}
}

func fileMD5(path string) (string, int64, error) {
	f, err := os.Open(path)
	if err != nil {
		return "", 0, err
	}
	defer f.Close()
	h := md5.New()
	n, err := io.Copy(h, f)
	return hex.EncodeToString(h.Sum(nil)), n, err
}

func bytesMD5(b []byte) string {
	h := md5.Sum(b)
	return hex.EncodeToString(h[:])
}

func (o *Obs) lock()   { o.s.mu.Lock() }
func (o *Obs) unlock() { o.s.mu.Unlock() }

// ---- receiver side

func (o *Obs) onRecvPoint(n *RecvNode, label, path string) {
	switch label {
	case "stage.put.logged":
		o.lock()
		o.putLogged[path] = true
		o.unlock()
	case "fileutil.move.done":
		// path is the destination; clear every put in flight of this node (one finalize at a time)
		o.lock()
		for k := range o.putLogged {
			if strings.HasPrefix(k, n.root) {
				delete(o.putLogged, k)
			}
		}
		o.unlock()
	}
	o.s.stat("probe:" + label)
}

func (o *Obs) onReceiverCrash(n *RecvNode, why string) {
	o.lock()
	defer o.unlock()
	o.crashes = append(o.crashes, fmt.Sprintf("r%d %s step=%d", n.inc, why, o.s.step))
	// a crash between logging and moving may repeat the log record
	for k := range o.putLogged {
		if strings.HasPrefix(k, n.root) {
			rel := k[len(n.stageDir())+1:]
			// rel = <source>/<name>
			o.logDupAllowed[rel]++
			delete(o.putLogged, k)
		}
	}
}

func (o *Obs) onSenderCrash(n *SendNode, why string) {
	o.lock()
	o.crashes = append(o.crashes, fmt.Sprintf("s%d %s step=%d", n.inc, why, o.s.step))
	o.unlock()
}

func (o *Obs) onScan(d *gkDeco, b []byte, err error) {
	o.s.stat("gk:scan")
	if err != nil {
		return
	}
	var list []*sts.Partial
	if json.Unmarshal(b, &list) == nil {
		o.s.checkScanListing(d, list)
	}
}

func (o *Obs) onPrepare(d *gkDeco, descs []partDesc) {
	o.lock()
	o.prepares = append(o.prepares, descs)
	o.unlock()
	o.s.stat("gk:prepare")
}

func (o *Obs) onReceive(d *gkDeco, file *sts.Partial, n int64, md5 string, err error) {
	r := &recvPartObs{Step: o.s.step, Inc: d.n.inc, Src: d.source, N: n, MD5: md5}
	r.Desc = partDesc{Name: file.Name, Renamed: file.Renamed, Prev: file.Prev, Hash: file.Hash, TimeNs: file.Time.UnixNano(), Size: file.Size}
	if len(file.Parts) == 1 {
		r.Desc.Beg, r.Desc.End = file.Parts[0].Beg, file.Parts[0].End
	}
	if err != nil {
		r.Err = errClass(err)
		o.s.stat("probe:receive-error")
	}
	o.lock()
	o.recvd = append(o.recvd, r)
	o.unlock()
	o.s.stat("gk:receive")
	o.s.observe("recv %s n=%d err=%s", r.Desc, n, r.Err)
	o.s.checkReceived(d, r)
}

func (o *Obs) onReceivedQuery(d *gkDeco, descs []partDesc, n int) {
	o.lock()
	o.queries = append(o.queries, &recvQueryObs{Step: o.s.step, Inc: d.n.inc, Parts: descs, N: n})
	o.unlock()
	for _, p := range descs {
		o.s.noteAsked(p.Name)
	}
	o.s.stat("gk:received?")
	o.s.observe("received? %d/%d", n, len(descs))
	o.s.checkReceivedQuery(d, descs, n)
}

func (o *Obs) onStatus(d *gkDeco, name string, sent time.Time, code int) {
	o.lock()
	o.status = append(o.status, &statusObs{Step: o.s.step, Inc: d.n.inc, Name: name, Code: code})
	o.unlock()
	o.s.noteAsked(name)
	o.s.stat(fmt.Sprintf("status:%d", code))
	o.s.observe("status %s=%d", name, code)
	o.s.checkStatusAnswer(d, name, code)
}

// ---- sender side

func errClass(err error) string {
	if err == nil {
		return ""
	}
	e := err.Error()
	switch {
	case strings.Contains(e, "refused"):
		return "refused"
	case strings.Contains(e, "response code"):
		i := strings.LastIndex(e, ":")
		return "status" + strings.TrimSpace(e[i+1:])
	case strings.Contains(e, "successful part"):
		return "partial"
	case strings.Contains(e, "failed to open file"):
		return "open"
	case strings.Contains(e, "poll request failed"):
		return "pollstatus"
	}
	return "error"
}

func (o *Obs) onScanDone(n *SendNode, start time.Time, files []sts.File, err error) {
	sc := &scanObs{Step: o.s.step, Inc: n.inc, Start: start}
	for _, f := range files {
		sc.Names = append(sc.Names, f.GetName())
		sc.Sizes = append(sc.Sizes, f.GetSize())
		sc.Times = append(sc.Times, f.GetTime().UnixNano())
	}
	o.lock()
	o.scans = append(o.scans, sc)
	o.unlock()
	o.s.checkScan(n, sc)
}

type readTap struct {
	sts.Readable
	o    *Obs
	name string
	h    md5Hash
	n    int64
	pos  int64
	buf  []byte
	eof  bool
}

type md5Hash interface {
	io.Writer
	Sum([]byte) []byte
}

func (r *readTap) Read(p []byte) (int, error) {
	n, err := r.Readable.Read(p)
	if n > 0 {
		r.h.Write(p[:n])
		r.n += int64(n)
		r.o.lock()
		r.buf = append(r.buf, p[:n]...)
		r.o.unlock()
	}
	if err == io.EOF {
		r.o.lock()
		r.eof = true // the source ends here (also when nothing at all could be read)
		r.o.unlock()
	}
	return n, err
}

func (r *readTap) Seek(off int64, whence int) (int64, error) {
	r.flush() // one handle serves several parts of a file: every segment counts
	r.h = md5.New()
	r.n = 0
	r.o.lock()
	r.pos = off
	r.o.unlock()
	return r.Readable.Seek(off, whence)
}

func (r *readTap) flush() {
	r.o.lock()
	eof := r.eof
	r.eof = false
	r.o.unlock()
	if r.n == 0 && !eof {
		return
	}
	r.o.lock()
	r.o.s.reads = append(r.o.s.reads, readObs{Name: r.name, Pos: r.pos, N: r.n, MD5: hex.EncodeToString(r.h.Sum(nil)), Step: r.o.s.step, Data: r.buf, EOF: eof})
	r.buf = nil
	r.o.unlock()
}

func (r *readTap) Close() error {
	r.flush()
	r.n = 0
	r.o.lock()
	delete(liveTaps, r)
	r.o.unlock()
	return r.Readable.Close()
}

type readObs struct {
	Name string
	Pos  int64
	N    int64
	MD5  string
	Step int
	Data []byte // the bytes read (several parts of one file may be read in one go)
	EOF  bool   // the read ended at the end of the source
}

func (o *Obs) wrapReadable(n *SendNode, f sts.File, r sts.Readable) sts.Readable {
	t := &readTap{Readable: r, o: o, name: f.GetName(), h: md5.New()}
	o.lock()
	liveTaps[t] = o.s
	o.unlock()
	return t
}

// liveTaps: read handles that are still open (the payload encoder keeps one
// open while the parts it has read are already arriving at the receiver).
var liveTaps = map[*readTap]*Sim{}

// sourceEndedInside: did a read of the file that started at or before beg hit
// the end of the source before end? (The file shrank after it was announced:
// the encoder keeps the stream aligned by emitting the announced number of
// bytes anyway, the tail being whatever its buffer held; the hash check then
// rejects the file. Nothing the wire format can be held to.)
func (s *Sim) sourceEndedInside(name string, beg, end int64) bool {
	s.mu.Lock()
	defer s.mu.Unlock()
	for t, owner := range liveTaps {
		if owner == s && t.name == name && t.eof && t.pos <= beg && t.pos+int64(len(t.buf)) < end {
			return true
		}
	}
	for _, rd := range s.reads {
		if rd.Name == name && rd.Pos <= beg && rd.Pos+rd.N >= beg && rd.Pos+rd.N < end && rd.EOF {
			return true
		}
	}
	return false
}

// liveReadMatches: did a still-open handle of this simulation read exactly
// these bytes at this position of the file?
func (s *Sim) liveReadMatches(name string, beg, end int64, md5sum string) bool {
	s.mu.Lock()
	defer s.mu.Unlock()
	for t, owner := range liveTaps {
		if owner != s {
			delete(liveTaps, t) // left over from an earlier simulation of this process
			continue
		}
		if t.name == name && t.pos <= beg && end <= t.pos+int64(len(t.buf)) && bytesMD5(t.buf[beg-t.pos:end-t.pos]) == md5sum {
			return true
		}
	}
	return false
}

func (o *Obs) onRemove(n *SendNode, f sts.File) {
	m, _, err := fileMD5(f.GetPath())
	if err != nil {
		m = ""
	}
	r := &removeObs{Step: o.s.step, Inc: n.inc, Name: f.GetName(), MD5: m}
	o.lock()
	o.removes = append(o.removes, r)
	o.unlock()
	o.s.stat("act:store.remove")
	o.s.observe("remove %s %s", r.Name, short(m))
	o.s.checkRelease(n, "remove", f.GetName(), m)
}

func (o *Obs) onCacheAdd(n *SendNode, h sts.Hashed) {
	o.lock()
	o.cacheAdds = append(o.cacheAdds, pushObs{Step: o.s.step, Inc: n.inc, Name: h.GetName(), Hash: h.GetHash(), Size: h.GetSize(), TimeNs: h.GetTime().UnixNano()})
	o.unlock()
}

func (o *Obs) onCacheDone(n *SendNode, name string, c sts.Cached) {
	d := &doneObs{Step: o.s.step, Inc: n.inc, Name: name}
	if c != nil {
		d.WasDone = c.IsDone()
		d.Hash = c.GetHash()
		if m, _, err := fileMD5(c.GetPath()); err == nil {
			d.MD5 = m
		}
	}
	o.lock()
	o.dones = append(o.dones, d)
	o.unlock()
	o.s.observe("done %s %s", name, short(d.MD5))
	// "done" is a statement about the version the cache entry describes
	// (its recorded hash); what is on disk matters when it gets removed.
	if c != nil && !d.WasDone && d.MD5 != "" && d.Hash != "" {
		o.s.checkRelease(n, "done", name, d.Hash)
	}
}

func (o *Obs) onCacheRemove(n *SendNode, name string) {}
func (o *Obs) onPersist(n *SendNode, err error)       { o.s.checkPersisted(n) }

func (o *Obs) onPush(n *SendNode, files []sts.Hashed) {
	o.lock()
	for _, f := range files {
		p := &pushObs{Step: o.s.step, Inc: n.inc, Name: f.GetName(), Hash: f.GetHash(), Size: f.GetSize(), TimeNs: f.GetTime().UnixNano()}
		if r, ok := f.(sts.Recovered); ok {
			p.Recovered = true
			p.Prev = r.GetPrev()
			p.SendSize = r.GetSendSize()
			p.Allocated = r.IsAllocated()
		} else {
			p.SendSize = f.GetSize()
		}
		o.pushes = append(o.pushes, p)
	}
	o.unlock()
	o.s.checkPush(n, files)
}

func (o *Obs) onPop(n *SendNode, r sts.Sendable) {
	beg, l := r.GetSlice()
	p := &popObs{Step: o.s.step, Inc: n.inc, Name: r.GetName(), Hash: r.GetHash(), Prev: r.GetPrev(), Beg: beg, Len: l, Send: r.GetSendSize(), Size: r.GetSize(), TimeNs: r.GetTime().UnixNano()}
	o.lock()
	o.pops = append(o.pops, p)
	o.unlock()
	o.s.checkPop(n, p)
}

func (o *Obs) onSentLog(n *SendNode, f sts.Sent) {
	sl := &sentLogObs{Step: o.s.step, Inc: n.inc, Name: f.GetName(), Hash: f.GetHash(), Size: f.GetSize()}
	o.lock()
	o.sentLogs = append(o.sentLogs, sl)
	o.unlock()
	o.s.checkSentLog(n, sl)
}

func (o *Obs) onTransmitBegin(n *SendNode, descs []partDesc, sends []int64, size int64) *txObs {
	t := &txObs{Inc: n.inc, Step: o.s.step, Parts: descs, Sends: sends, Size: size}
	o.lock()
	t.ID = len(o.tx) + 1
	o.tx = append(o.tx, t)
	o.unlock()
	var b strings.Builder
	for _, d := range descs {
		b.WriteString(d.String())
		b.WriteByte(' ')
	}
	o.s.observe("tx#%d %s", t.ID, b.String())
	o.s.checkTransmitBegin(n, t)
	return t
}

func (o *Obs) onTransmitEnd(n *SendNode, t *txObs, cnt int, err error) {
	o.lock()
	t.N = cnt
	t.Err = errClass(err)
	t.Done = true
	t.EndStep = o.s.step
	o.unlock()
	if err != nil {
		o.s.stat("probe:tx-" + t.Err)
	}
	o.s.observe("tx#%d -> %d %s", t.ID, cnt, t.Err)
	o.s.checkTransmitEnd(n, t)
}

func (o *Obs) onTxRecover(n *SendNode, descs []partDesc, cnt int, err error) {
	o.lock()
	o.txrecs = append(o.txrecs, &txRecObs{Step: o.s.step, Inc: n.inc, Parts: descs, N: cnt, Err: errClass(err)})
	o.unlock()
	o.s.stat("probe:txrecover")
	o.s.observe("txrecover -> %d %s", cnt, errClass(err))
}

func (o *Obs) onValidateBegin(n *SendNode, in []sts.Pollable) *pollObs {
	p := &pollObs{Inc: n.inc, Step: o.s.step, Answer: map[string]int{}}
	for _, f := range in {
		p.Names = append(p.Names, f.GetName())
		p.Started = append(p.Started, f.GetStarted().Unix())
	}
	o.lock()
	p.ID = len(o.polls) + 1
	o.polls = append(o.polls, p)
	o.unlock()
	o.s.checkPollBegin(n, p)
	return p
}

func (o *Obs) onValidateEnd(n *SendNode, p *pollObs, out []sts.Polled, err error) {
	o.lock()
	p.Done = true
	p.EndStep = o.s.step
	p.Err = errClass(err)
	var b strings.Builder
	for _, f := range out {
		code := sts.ConfirmNone
		switch {
		case f.Waiting():
			code = sts.ConfirmWaiting
		case f.Received():
			code = sts.ConfirmPassed
		case f.Failed():
			code = sts.ConfirmFailed
		}
		p.Answer[f.GetName()] = code
		fmt.Fprintf(&b, "%s=%d ", f.GetName(), code)
		o.s.stats[fmt.Sprintf("poll:%d", code)]++
	}
	o.unlock()
	if err != nil {
		o.s.stat("probe:poll-error")
	}
	o.s.observe("poll#%d -> %s%s", p.ID, b.String(), p.Err)
}

func (o *Obs) onPartials(n *SendNode, list []*sts.Partial, err error) {
	o.lock()
	o.partials = append(o.partials, &partialsObs{Step: o.s.step, Inc: n.inc, List: list, Err: errClass(err)})
	o.unlock()
	o.s.statN("probe:partials-listed", len(list))
	o.s.observe("partials -> %d %s", len(list), errClass(err))
}

func (o *Obs) onStopRequested(n *SendNode) {
	o.lock()
	o.stopStep = o.s.step
	o.unlock()
}

// ---- disk

type stagedFile struct {
	Rel  string // <source>/<name>.<ext>
	Ext  string
	Size int64
}

func (s *Sim) listStage(n *RecvNode) []stagedFile {
	var out []stagedFile
	root := n.stageDir()
	filepath.Walk(root, func(p string, info os.FileInfo, err error) error {
		if err != nil || info.IsDir() {
			return nil
		}
		rel, _ := filepath.Rel(root, p)
		out = append(out, stagedFile{Rel: rel, Ext: filepath.Ext(p), Size: info.Size()})
		return nil
	})
	return out
}

// restamp gives entries written since the last quiescence the fake "now" as
// mtime (the SUT writes with the real clock, which is years ahead).
func (s *Sim) restamp(n *RecvNode) {
	now := time.Now()
	lim := now.Add(24 * time.Hour)
	for _, root := range []string{n.stageDir(), n.finalDir()} {
		var fix []string
		filepath.Walk(root, func(p string, info os.FileInfo, err error) error {
			if err != nil {
				return nil
			}
			if info.ModTime().After(lim) {
				fix = append(fix, p)
			}
			return nil
		})
		// children first so that parents are not re-touched afterwards (chtimes does not touch parents anyway)
		for _, p := range fix {
			os.Chtimes(p, now, now)
		}
	}
}

func parseRecvLogLine(line string) (logLine, bool) {
	// name:renamed:hash:size:time:  -- parsed from the right so that ':' in names survives
	line = strings.TrimRight(line, "\n")
	if !strings.HasSuffix(line, ":") {
		return logLine{}, false
	}
	parts := strings.Split(line[:len(line)-1], ":")
	if len(parts) < 5 {
		return logLine{}, false
	}
	k := len(parts)
	t, err1 := strconv.ParseInt(parts[k-1], 10, 64)
	sz, err2 := strconv.ParseInt(parts[k-2], 10, 64)
	if err1 != nil || err2 != nil {
		return logLine{}, false
	}
	hash := parts[k-3]
	renamed := parts[k-4]
	name := strings.Join(parts[:k-4], ":")
	return logLine{Name: name, Renamed: renamed, Hash: hash, Size: sz, Time: t}, true
}

// readRecvLog parses every receive-log file of a source in a receiver tree.
func readRecvLog(n *RecvNode, source string) []logLine {
	var out []logLine
	root := filepath.Join(n.logInDir(), source)
	var files []string
	filepath.Walk(root, func(p string, info os.FileInfo, err error) error {
		if err == nil && !info.IsDir() {
			files = append(files, p)
		}
		return nil
	})
	sort.Strings(files)
	for _, f := range files {
		fh, err := os.Open(f)
		if err != nil {
			continue
		}
		sc := bufio.NewScanner(fh)
		for sc.Scan() {
			if l, ok := parseRecvLogLine(sc.Text()); ok {
				out = append(out, l)
			}
		}
		fh.Close()
	}
	return out
}

// scanFinal consumes files that appeared in the final directory.
func (s *Sim) scanFinal(n *RecvNode) {
	root := n.finalDir()
	var found []string
	filepath.Walk(root, func(p string, info os.FileInfo, err error) error {
		if err != nil || info.IsDir() {
			return nil
		}
		if strings.HasSuffix(p, ".lck") {
			return nil
		}
		if s.sc.Mode == "w2" && !strings.HasPrefix(p, filepath.Join(root, s.sc.Send.Name)+"/") {
			return nil // other sources' deliveries are sandbox content, not ours to consume
		}
		found = append(found, p)
		return nil
	})
	sort.Strings(found)
	for _, p := range found {
		rel, _ := filepath.Rel(root, p)
		m, sz, err := fileMD5(p)
		if err != nil {
			continue
		}
		a := &arrival{Path: rel, MD5: m, Size: sz, Step: s.step, Inc: n.inc}
		s.ob.arrivals = append(s.ob.arrivals, a)
		dst := filepath.Join(s.ws, "archive", fmt.Sprintf("%05d", len(s.ob.arrivals)))
		os.MkdirAll(filepath.Dir(dst), 0755)
		os.Rename(p, dst)
		s.stat("arrival")
		s.dlog = append(s.dlog, fmt.Sprintf("  . arrive %s %s", rel, short(m)))
		s.checkArrival(n, a)
	}
}
