package main

// Scripted HTTP peer: the operator (internal port) and, in world W2, an
// authorised-but-arbitrary sender speaking the wire protocol by hand.

import (
	"bytes"
	"compress/gzip"
	"encoding/json"
	"fmt"
	"io"
	nethttp "net/http"
	"strconv"
	"strings"
	"time"
)

type peerCall struct {
	Tag     string
	Method  string
	URL     string
	Status  int
	Err     string
	Body    []byte
	Header  nethttp.Header
	Done    bool
	Step    int
	EndStep int
	onDone  func(*peerCall)
}

func (s *Sim) peerClient() *nethttp.Client {
	tr := &nethttp.Transport{DialContext: s.net.dial, DisableKeepAlives: true}
	return &nethttp.Client{Transport: tr, Timeout: 10 * time.Minute}
}

// peerDo issues a request from the harness. It runs in its own goroutine;
// the scheduler moves its bytes like anybody else's.
func (s *Sim) peerDo(tag, method, url string, hdr map[string]string, body []byte, onDone func(*peerCall)) *peerCall {
	pc := &peerCall{Tag: tag, Method: method, URL: url, Step: s.step, onDone: onDone}
	s.net.dialTag = "peer"
	s.mu.Lock()
	s.peerCalls = append(s.peerCalls, pc)
	s.mu.Unlock()
	go func() {
		var rd io.Reader
		if body != nil {
			rd = bytes.NewReader(body)
		}
		req, err := nethttp.NewRequest(method, url, rd)
		if err != nil {
			pc.Err = err.Error()
			pc.Done = true
			return
		}
		for k, v := range hdr {
			req.Header[k] = []string{v} // keep the exact spelling of header names
		}
		resp, err := s.peerClient().Do(req)
		s.mu.Lock()
		if err != nil {
			pc.Err = errClass(err)
		} else {
			pc.Status = resp.StatusCode
			pc.Header = resp.Header
		}
		s.mu.Unlock()
		if err == nil {
			b, _ := io.ReadAll(resp.Body)
			if resp.Header.Get("Content-Encoding") == "gzip" {
				if zr, e := gzip.NewReader(bytes.NewReader(b)); e == nil {
					if ub, e2 := io.ReadAll(zr); e2 == nil {
						b = ub
					}
				}
			}
			resp.Body.Close()
			s.mu.Lock()
			pc.Body = b
			s.mu.Unlock()
		}
		s.mu.Lock()
		pc.Done = true
		pc.EndStep = s.step
		s.mu.Unlock()
		s.observe("peer %s -> %d %s", tag, pc.Status, pc.Err)
		if pc.onDone != nil {
			pc.onDone(pc)
		}
		s.signalWake()
	}()
	return pc
}

func (s *Sim) installOperator() {
	s.operatorFn = func(cmd, mode string) {
		if s.recv == nil {
			return
		}
		url := fmt.Sprintf("http://recv:1993/%s?source=%s&block", cmd, s.sc.Send.Name)
		if cmd == "prune" {
			url += "&minage=" + mode
		}
		s.peerDo("operator-"+cmd, "PUT", url, nil, nil, nil)
	}
}

// ---------------------------------------------------------------- hand-rolled wire format

type wirePart struct {
	Name    string `json:"n"`
	Renamed string `json:"r"`
	Prev    string `json:"p"`
	Hash    string `json:"f"`
	Time    string `json:"t"`
	Size    int64  `json:"s"`
	Beg     int64  `json:"b"`
	End     int64  `json:"e"`
	data    []byte
}

func nanoStr(t time.Time) string { return fmt.Sprintf("%d+%d", t.Unix(), t.Nanosecond()) }

type wireReq struct {
	Parts    []wirePart
	Source   string
	Key      string
	Sep      string
	Gzip     int // 0 = none, else level
	MetaLen  string // override of X-STS-MetaLen ("" = correct)
	Truncate int    // >0: cut the body after this many bytes (clean end of body)
	RawMeta  []byte // override of the JSON header
}

func (w *wireReq) encode(recovery bool) (hdr map[string]string, body []byte) {
	meta := w.RawMeta
	if meta == nil {
		meta, _ = json.Marshal(w.Parts)
	}
	var raw bytes.Buffer
	raw.Write(meta)
	if !recovery {
		for _, p := range w.Parts {
			raw.Write(p.data)
		}
	}
	body = raw.Bytes()
	hdr = map[string]string{"X-STS-SrcName": w.Source}
	if w.Key != "" {
		hdr["X-STS-Key"] = w.Key
	}
	if w.Sep != "" {
		hdr["X-STS-Sep"] = w.Sep
	}
	if !recovery {
		ml := w.MetaLen
		if ml == "" {
			ml = strconv.Itoa(len(meta))
		}
		hdr["X-STS-MetaLen"] = ml
	}
	if w.Gzip != 0 {
		var zb bytes.Buffer
		zw, _ := gzip.NewWriterLevel(&zb, w.Gzip)
		zw.Write(body)
		zw.Close()
		body = zb.Bytes()
		hdr["Content-Encoding"] = "gzip"
	}
	if w.Truncate > 0 && w.Truncate < len(body) {
		body = body[:w.Truncate]
	}
	if w.Truncate < 0 && w.Gzip == 0 && len(meta)-w.Truncate-1 < len(body) {
		// -1: the body ends right after the part descriptors (the receiver
		// prepares the staged files and then gets no data); -k: k-1 bytes later
		body = body[:len(meta)-w.Truncate-1]
	}
	return
}

func (s *Sim) noteAnnounced(parts []wirePart) {
	for _, p := range parts {
		var sec, ns int64
		fmt.Sscanf(p.Time, "%d+%d", &sec, &ns)
		s.extraAnnounced = append(s.extraAnnounced, partDesc{Name: p.Name, Renamed: p.Renamed, Prev: p.Prev, Hash: p.Hash, TimeNs: time.Unix(sec, ns).UnixNano(), Size: p.Size, Beg: p.Beg, End: p.End})
	}
}

func pollBody(names []string, started int64) []byte {
	type cf struct {
		N string `json:"n"`
		T int64  `json:"t"`
	}
	var l []cf
	for _, n := range names {
		l = append(l, cf{n, started})
	}
	b, _ := json.Marshal(l)
	return b
}

func parsePollAnswer(b []byte) map[string]int {
	m := map[string]int{}
	json.Unmarshal(b, &m)
	return m
}

func trimSrc(p, src string) string { return strings.TrimPrefix(p, src+"/") }
