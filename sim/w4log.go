package main

// World W4 (log): the real log.FileIO driven by 1-4 caller tasks on the fake
// clock; the tape interleaves the tasks' calls, the logger goroutine's file
// rotation (open seam) and time.

import (
	"fmt"
	"math/rand/v2"
	"os"
	"path/filepath"
	"sort"
	"strings"
	"sync"
	"time"

	"github.com/anishathalye/porcupine"
	stslog "github.com/arm-doe/sts/log"
)

type LogOp struct {
	Task    int    `json:"task"`
	Kind    string `json:"kind"` // recv, sent, wasrecv, wassent, parse, sleep
	Name    string `json:"name,omitempty"`
	Renamed string `json:"renamed,omitempty"`
	Hash    string `json:"hash,omitempty"`
	Size    int64  `json:"size,omitempty"`
	After   int64  `json:"after_s,omitempty"`  // window start, seconds relative to the call time
	Before  int64  `json:"before_s,omitempty"` // window end, seconds relative to the call time
	Dur     int64  `json:"dur_s,omitempty"`
}

type logRec struct {
	in      bool
	name    string
	renamed string
	hash    string
	size    int64
	day0    string // day at invocation
	day1    string // day at completion
	t0, t1  int64
	seq     int
}

type logFile struct{ name, renamed, hash string; size int64 }

func (f *logFile) GetName() string    { return f.name }
func (f *logFile) GetRenamed() string { return f.renamed }
func (f *logFile) GetSize() int64     { return f.size }
func (f *logFile) GetHash() string    { return f.hash }
func (f *logFile) TimeMs() int64      { return 12 }

type taskNode struct{ id int }

func (t *taskNode) isDead() bool     { return false }
func (t *taskNode) nodeName() string { return fmt.Sprintf("t%d", t.id) }

type logHistOp struct {
	op     LogOp
	call   int
	ret    int
	result bool
	days   []string // days visited by a lookup / parse
	day0   string
}

func dayOf(t time.Time) string { return t.Format("20060102") }

// visitedDays mirrors nothing of sts: it is the statement's "days the window
// touches" - every calendar day between the two ends, inclusive.
func touchedDays(a, b time.Time) []string {
	if b.Before(a) {
		a, b = b, a
	}
	var out []string
	d := time.Date(a.Year(), a.Month(), a.Day(), 0, 0, 0, 0, time.UTC)
	for !d.After(b) {
		out = append(out, dayOf(d))
		d = d.Add(24 * time.Hour)
	}
	return out
}

func (s *Sim) runW4Log() {
	sc := s.sc
	inRoot := filepath.Join(s.ws, "login")
	outRoot := filepath.Join(s.ws, "logout")
	logNode := &taskNode{id: 99}
	var openedMu sync.Mutex
	var opened []*os.File
	defer func() {
		openedMu.Lock()
		for _, fh := range opened {
			fh.Close()
		}
		openedMu.Unlock()
	}()
	mkOpen := func() stslog.OpenFile {
		return func(path string, flag int, perm os.FileMode) (*os.File, error) {
			if s.hot["log.open"] {
				s.park(logNode, "log.open", s.rel(path), nil)
			}
			fh, err := os.OpenFile(path, flag, perm)
			if err == nil {
				// the loggers have no Close: their day files are closed when the run is over
				openedMu.Lock()
				opened = append(opened, fh)
				openedMu.Unlock()
			}
			return fh, err
		}
	}
	in := stslog.NewFileIO(inRoot, nil, mkOpen(), true)
	out := stslog.NewFileIO(outRoot, nil, mkOpen(), false)
	var mu sync.Mutex
	var recs []*logRec
	var hist []*logHistOp
	seq := 0
	ntasks := sc.LogTasks
	var wg sync.WaitGroup
	alive := ntasks
	active := 0 // calls into the loggers in progress
	for ti := 0; ti < ntasks; ti++ {
		ti := ti
		tn := &taskNode{id: ti}
		wg.Add(1)
		go func() {
			defer wg.Done()
			k := 0
			for _, op := range sc.LogOps {
				if op.Task != ti {
					continue
				}
				k++
				if op.Kind == "sleep" {
					time.Sleep(time.Duration(op.Dur) * time.Second)
					continue
				}
				s.park(tn, "log."+op.Kind, fmt.Sprintf("%d %s", k, op.Name), nil)
				if op.Kind == "reopen" {
					// a restart of the logging process: new logger objects over the
					// same directories (only while no other call is in progress)
					reopened := false
					mu.Lock()
					if active == 0 {
						in = stslog.NewFileIO(inRoot, nil, mkOpen(), true)
						out = stslog.NewFileIO(outRoot, nil, mkOpen(), false)
						reopened = true
					}
					mu.Unlock()
					if reopened {
						s.stat("log:reopen")
					}
					continue
				}
				mu.Lock()
				active++
				in, out := in, out
				mu.Unlock()
				now := time.Now()
				h := &logHistOp{op: op, day0: dayOf(now)}
				mu.Lock()
				seq++
				h.call = seq
				hist = append(hist, h)
				mu.Unlock()
				f := &logFile{name: op.Name, renamed: op.Renamed, hash: op.Hash, size: op.Size}
				after := now.Add(time.Duration(op.After) * time.Second)
				before := now.Add(time.Duration(op.Before) * time.Second)
				switch op.Kind {
				case "recv", "sent":
					r := &logRec{in: op.Kind == "recv", name: op.Name, renamed: op.Renamed, hash: op.Hash, size: op.Size, day0: dayOf(now), t0: now.Unix()}
					if op.Kind == "recv" {
						in.Received(f)
					} else {
						out.Sent(f)
					}
					end := time.Now()
					r.day1, r.t1 = dayOf(end), end.Unix()
					mu.Lock()
					seq++
					r.seq = seq
					recs = append(recs, r)
					mu.Unlock()
					s.stat("log:write")
				case "wasrecv", "wassent":
					h.days = touchedDays(after, before)
					mu.Lock()
					known := append([]*logRec(nil), recs...)
					mu.Unlock()
					var got bool
					if op.Kind == "wasrecv" {
						got = in.WasReceived(op.Name, op.Hash, after, before)
					} else {
						got = out.WasSent(op.Name, op.Hash, after, before)
					}
					h.result = got
					mu.Lock()
					now2 := append([]*logRec(nil), recs...)
					mu.Unlock()
					s.judgeLookup(op, got, after, before, known, now2)
					s.stat("log:lookup")
				case "parse":
					mu.Lock()
					known := append([]*logRec(nil), recs...)
					mu.Unlock()
					type tup struct {
						name, renamed, hash string
						size, t            int64
					}
					var got []tup
					in.Parse(func(name, renamed, hash string, size int64, t time.Time) bool {
						got = append(got, tup{name, renamed, hash, size, t.Unix()})
						return false
					}, after, before)
					s.stat("log:parse")
					if !after.Equal(before) {
						days := map[string]bool{}
						for _, d := range touchedDays(after, before) {
							days[d] = true
						}
						for _, r := range known {
							if !r.in || !days[r.day0] || !days[r.day1] {
								continue
							}
							ok := false
							for _, g := range got {
								if g.name == r.name && g.renamed == r.renamed && g.hash == r.hash && g.size == r.size && g.t >= r.t0 && g.t <= r.t1 {
									ok = true
								}
							}
							if !ok {
								oracle := "replay-loses-or-garbles-record"
								if strings.Contains(r.name, ":") || strings.Contains(r.renamed, ":") {
									oracle = "replay-garbles-record-separator-in-name"
								}
								s.violate("C18", oracle, "replaying the receive log over a window touching %s does not yield the record (%q,%q,%s,%d) written then; got %d tuples", r.day0, r.name, r.renamed, short(r.hash), r.size, len(got))
							}
						}
					}
				}
				mu.Lock()
				seq++
				h.ret = seq
				active--
				mu.Unlock()
			}
			mu.Lock()
			alive--
			mu.Unlock()
			s.signalWake()
		}()
	}
	s.stepHooks = append(s.stepHooks, func() {
		mu.Lock()
		a := alive
		mu.Unlock()
		if a == 0 {
			s.ended = true
			s.settledFinal = true
		}
	})
	s.runLoop()
	s.inconclusive = !s.settledFinal
	// linearizability of the recorded concurrent history against the record-list model
	if s.settledFinal && len(hist) <= 40 {
		s.checkLogLinearizable(hist)
	}
	s.finalOracles()
}

func exactRec(recs []*logRec, in bool, name, hash string, days map[string]bool, both bool) bool {
	for _, r := range recs {
		if r.in != in || r.name != name || (hash != "" && r.hash != hash) {
			continue
		}
		if days == nil {
			return true
		}
		if both && days[r.day0] && days[r.day1] {
			return true
		}
		if !both && (days[r.day0] || days[r.day1]) {
			return true
		}
	}
	return false
}

// judgeLookup: yes whenever an exact record was written on a touched day; yes
// only if some exact record exists at all.
func (s *Sim) judgeLookup(op LogOp, got bool, after, before time.Time, known, now []*logRec) {
	in := op.Kind == "wasrecv"
	if got {
		if !exactRec(now, in, op.Name, op.Hash, nil, false) {
			// names containing the record separator make records ambiguous
			// ("b" + ":1.dat" vs "b:1.dat"): classified separately
			oracle := "lookup-false-yes"
			for _, r := range now {
				if r.in == in && strings.HasPrefix(r.name, op.Name+":") {
					oracle = "lookup-false-yes-separator-in-name"
				}
			}
			s.violate("C18", oracle, "%s(%q, hash %q) answered yes although no record of exactly that name%s was ever written", op.Kind, op.Name, short(op.Hash), map[bool]string{true: " and hash", false: ""}[op.Hash != ""])
		}
		return
	}
	if after.Equal(before) {
		return // empty window
	}
	days := map[string]bool{}
	for _, d := range touchedDays(after, before) {
		days[d] = true
	}
	if exactRec(known, in, op.Name, op.Hash, days, true) {
		s.violate("C18", "lookup-false-no", "%s(%q, hash %q, window %s .. %s) answered no although a record of exactly that name%s was written on a day the window touches", op.Kind, op.Name, short(op.Hash), after.Format("2006-01-02T15:04"), before.Format("2006-01-02T15:04"), map[bool]string{true: " and hash", false: ""}[op.Hash != ""])
	}
}

// ---- porcupine

type linIn struct {
	write bool
	in    bool
	name  string
	hash  string
	days  []string
	day   string
	empty bool
}

func (s *Sim) checkLogLinearizable(hist []*logHistOp) {
	model := porcupine.Model{
		Init: func() interface{} { return "" },
		Step: func(state, input, output interface{}) (bool, interface{}) {
			st := state.(string)
			inp := input.(linIn)
			if inp.write {
				return true, st + fmt.Sprintf("|%v\x00%s\x00%s\x00%s", inp.in, inp.name, inp.hash, inp.day)
			}
			if inp.empty {
				return true, st
			}
			// a lookup may see any record of exactly that name(+hash) on a touched day -> must be yes;
			// none of that name at all -> must be no; otherwise (right record, other day) either answer
			must, may := false, false
			for _, r := range strings.Split(st, "|") {
				f := strings.Split(r, "\x00")
				if len(f) != 4 || f[0] != fmt.Sprint(inp.in) || f[1] != inp.name || (inp.hash != "" && f[2] != inp.hash) {
					continue
				}
				may = true
				for _, d := range inp.days {
					if d == f[3] {
						must = true
					}
				}
			}
			got := output.(bool)
			if must {
				return got, st
			}
			if !may {
				return !got, st
			}
			return true, st
		},
	}
	var ops []porcupine.Operation
	for _, h := range hist {
		if strings.Contains(h.op.Name, ":") {
			return // separator in a name: the record format itself is ambiguous (known finding)
		}
	}
	for _, h := range hist {
		if h.ret == 0 {
			continue
		}
		switch h.op.Kind {
		case "recv", "sent":
			ops = append(ops, porcupine.Operation{ClientId: h.op.Task, Input: linIn{write: true, in: h.op.Kind == "recv", name: h.op.Name, hash: h.op.Hash, day: h.day0}, Call: int64(h.call), Output: true, Return: int64(h.ret)})
		case "wasrecv", "wassent":
			ops = append(ops, porcupine.Operation{ClientId: h.op.Task, Input: linIn{in: h.op.Kind == "wasrecv", name: h.op.Name, hash: h.op.Hash, days: h.days, empty: h.op.After == h.op.Before}, Call: int64(h.call), Output: h.result, Return: int64(h.ret)})
		}
	}
	if len(ops) == 0 {
		return
	}
	res := porcupine.CheckOperationsTimeout(model, ops, 5*time.Second)
	switch res {
	case porcupine.Illegal:
		s.stat("lin:illegal")
		s.violate("C18", "log-history-not-linearizable", "the concurrent history of %d log operations has no linearization against the exact-record model", len(ops))
	case porcupine.Unknown:
		s.stat("lin:unknown")
	default:
		s.stat("lin:ok")
	}
}

// ---- generator

func genLogScenario(seed uint64) *Scenario {
	g := &gen{r: rand.New(rand.NewPCG(seed, 0x106))}
	sc := &Scenario{Prop: "C18", Mode: "w4log", Seed: seed}
	ep, _ := time.Parse(time.RFC3339, epochs[g.n(len(epochs))])
	sc.EpochUnix = ep.Unix() + int64(g.n(50))
	sc.LogTasks = 1 + g.n(4)
	sc.MaxSteps = 4000
	sc.MaxFake = 100 * 24 * time.Hour
	sc.TimeWeight = g.pick(1, 2)
	if g.pct(50) {
		sc.Hot = []string{"log.open"}
	}
	names := []string{"a.dat", "a.dat.gz", "x/a.dat", "data/a.dat", "a", "file.1", "file.10", "b:1.dat", "dir:x/c.dat", "c.dat", "ab.dat", "b.dat"}
	if g.pct(60) {
		// without the separator character in names
		names = []string{"a.dat", "a.dat.gz", "x/a.dat", "data/a.dat", "a", "file.1", "file.10", "c.dat", "ab.dat", "b.dat"}
	}
	hashes := []string{"0cc175b9c0f1b6a831c399e269772661", "92eb5ffee6ae2fec3ad71c777531578f", "4a8a08f09d37b73795649038408b5f33", "8277e0910d750195b448797616e091ad"}
	n := 4 + g.n(20)
	var written []LogOp
	for i := 0; i < n; i++ {
		op := LogOp{Task: g.n(sc.LogTasks)}
		if i > 0 && g.pct(8) {
			op.Kind = "reopen" // the logging process is restarted (same day or later)
			sc.LogOps = append(sc.LogOps, op)
			continue
		}
		switch g.n(10) {
		case 0, 1, 2, 3:
			op.Kind = []string{"recv", "recv", "recv", "sent"}[g.n(4)]
			op.Name = names[g.n(len(names))]
			op.Hash = hashes[g.n(len(hashes))]
			op.Size = int64(1 + g.n(100000))
			if op.Kind == "recv" && g.pct(30) {
				op.Renamed = "ren/" + names[g.n(len(names))]
			}
			written = append(written, op)
		case 4, 5, 6, 7:
			op.Kind = "wasrecv"
			if g.pct(25) {
				op.Kind = "wassent"
			}
			if len(written) > 0 && g.pct(60) {
				w := written[g.n(len(written))]
				op.Name, op.Hash = w.Name, w.Hash
			} else {
				op.Name = names[g.n(len(names))]
				op.Hash = hashes[g.n(len(hashes))]
			}
			if g.pct(35) {
				op.Hash = ""
			}
			switch g.n(7) {
			case 0:
				op.After, op.Before = -60, 0 // same day (mostly)
			case 1:
				op.After, op.Before = -86400-3600, 0 // spanning midnight
			case 2:
				op.After, op.Before = -40*86400, 0 // spanning months
			case 3:
				op.After, op.Before = 0, -3*86400 // reversed
			case 4:
				op.After, op.Before = 0, 0 // empty
			case 5:
				op.After, op.Before = -3*86400, 3600
			case 6:
				op.After, op.Before = -10, 10
			}
		case 8:
			op.Kind = "parse"
			op.After, op.Before = -int64(g.pick(60, 86400*2, 86400*35)), 5
		case 9:
			op.Kind = "sleep"
			op.Dur = int64(g.pick(1, 30, 90, 3600, 86400, 86400*2, 86400*31))
		}
		sc.LogOps = append(sc.LogOps, op)
	}
	// a final sweep of look-ups for everything written
	for _, w := range written {
		k := "wasrecv"
		if w.Kind == "sent" {
			k = "wassent"
		}
		sc.LogOps = append(sc.LogOps, LogOp{Task: 0, Kind: k, Name: w.Name, Hash: w.Hash, After: -120 * 86400, Before: 10})
	}
	sort.SliceStable(sc.LogOps, func(i, j int) bool { return false })
	return sc
}

func init() {
	modes["w4log"] = func(s *Sim) { s.runW4Log() }
	generators["C18"] = func(seed uint64, tier string) []*Scenario { return one(genLogScenario(seed)) }
}
