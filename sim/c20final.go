package main

import "sort"

// c20Final: cleaning must not cause loss or retransmission - every file
// whose bytes the script sent completely (each byte once) ends up delivered.
func (s *Sim) c20Final() {
	if !s.on("C20") || s.sc.Mode != "w2" || !s.settledFinal || len(s.ob.crashes) > 0 {
		return // (a crash may take a request in flight with it; the scripted peer does not retransmit)
	}
	sent := map[int][]rng{}
	for _, op := range s.sc.Peer {
		if op.Kind != "data" || op.Truncate != 0 {
			continue // (a request cut short on purpose has not sent its parts)
		}
		for _, p := range op.Parts {
			sent[p.File] = append(sent[p.File], rng{p.Beg, p.End})
		}
	}
	var idx []int
	for i := range sent {
		idx = append(idx, i)
	}
	sort.Ints(idx)
	// a later version of the same name supersedes an earlier incomplete one
	for _, i := range idx {
		f := &s.sc.PeerFiles[i]
		if f.BadHash || !covered(sent[i], 0, f.Size) {
			continue
		}
		if f.Prev != "" {
			pok := false
			for j, pf := range s.sc.PeerFiles {
				if pf.Name == f.Prev && covered(sent[j], 0, pf.Size) {
					pok = true
				}
			}
			if !pok {
				continue
			}
		}
		h := s.peerFileHash(f)
		if !s.w2m.delivered("src1", f.Name, h) {
			if s.c20IsExplained("src1/"+f.Name, h) {
				continue // reported at the pass that removed its partial, under that pass's own oracle id
			}
			s.violate("C20", "transfer-lost-after-cleaning", "every byte of %s (version %s) was sent exactly once around the cleaning passes, but the file was never delivered (%d crashes)", f.Name, short(h), len(s.ob.crashes))
		}
	}
}
