package main

// C17: only eligible files are sent, each version once, changed files again.

import (
	"fmt"
	"math/rand/v2"
	"os"
	"path/filepath"
	"regexp"
	"sort"
	"strings"
	"time"
)

// staticEligible: the eligibility rules that do not depend on time
// (independent statement of the documented rules, not a copy of store.Local).
func (s *Sim) staticEligible(name string, size int64) (bool, string) {
	c := s.sc.Send
	if size == 0 {
		return false, "empty"
	}
	if strings.HasSuffix(name, ".lck") {
		return false, "lock file"
	}
	segs := strings.Split(name, "/")
	if !c.IncludeHidden {
		for _, sg := range segs {
			if strings.HasPrefix(sg, ".") {
				return false, "hidden"
			}
		}
	}
	if segs[len(segs)-1] == ".disabled" {
		return false, "disable marker"
	}
	for _, ig := range c.Ignore {
		if ok, _ := regexp.MatchString(ig, name); ok {
			return false, "ignored"
		}
		// an ignore pattern matching a directory excludes what is below it
		for i := 1; i < len(segs); i++ {
			if ok, _ := regexp.MatchString(ig, strings.Join(segs[:i], "/")); ok {
				return false, "in ignored directory"
			}
		}
	}
	for _, t := range c.Tags {
		if t.Pattern != "" && t.Method != "" && t.Method != "http" {
			if ok, _ := regexp.MatchString(t.Pattern, name); ok {
				return false, "non-http tag"
			}
		}
	}
	if len(c.Include) > 0 {
		inc := false
		for _, in := range c.Include {
			if ok, _ := regexp.MatchString(in, name); ok {
				inc = true
			}
		}
		if !inc {
			return false, "not included"
		}
	}
	return true, ""
}

func (s *Sim) installC17() {
	if !s.on("C17") {
		return
	}
	s.eligibleFn = func(name string, v *srcVersion) bool {
		ok, _ := s.staticEligible(name, v.Size)
		return ok && !s.disabledNow()
	}
	seen := map[string]bool{}  // inc|name|size|mtime announced by a scan of an incarnation
	seenV := map[string]bool{} // name|size|mtime returned by any scan
	nScans := 0
	var scanAt []time.Duration // start of every scan, on the simulation clock
	s.hookScan = func(n *SendNode, sc *scanObs) {
		for i, name := range sc.Names {
			if ok, why := s.staticEligible(name, sc.Sizes[i]); !ok {
				s.violate("C17", "ineligible-file-scanned", "scan returned %s which is not eligible (%s)", name, why)
				continue
			}
			age := sc.Start.Sub(time.Unix(0, sc.Times[i]))
			if age < s.sc.Send.MinAge {
				s.violate("C17", "too-young-file-scanned", "scan started %s returned %s whose age was %s, below the minimum age %s", sc.Start.Format("15:04:05"), name, age, s.sc.Send.MinAge)
			}
			// (the version object: a file deleted and created anew with the same
			// size and time is another file, and is rightly found again)
			k := fmt.Sprintf("%d|%s|%d|%d|%p", n.inc, name, sc.Sizes[i], sc.Times[i], s.world.current(name))
			if seen[k] {
				// the same version found again by a later scan of the same process:
				// legitimate only if it had to be retried (hash failed) - not modelled, so
				// only flagged in fault-free runs
				if s.sc.FaultFree && s.nFaults == 0 {
					s.violate("C17", "unchanged-file-picked-up-again", "%s (size %d, mtime unchanged) was returned by two scans of the same sender process", name, sc.Sizes[i])
				}
			}
			seen[k] = true
			seenV[fmt.Sprintf("%s|%d|%d", name, sc.Sizes[i], sc.Times[i])] = true
		}
		nScans++
		scanAt = append(scanAt, sc.Start.Sub(s.epoch))
	}
	// "if": an eligible file is picked up. Judged at the end for versions that
	// had been eligible, untouched, for many scan periods.
	s.finalHooks = append(s.finalHooks, func() {
		end := time.Since(s.epoch)
		period := s.sc.Send.ScanDelay
		if period < time.Second {
			period = time.Second
		}
		if nScans < 3 || s.disabledNow() || len(s.sendAll) != 1 || s.ob.stopStep >= 0 {
			return
		}
		var lastEnv time.Duration
		for _, a := range s.sc.Env {
			if a.At > lastEnv {
				lastEnv = a.At
			}
		}
		names := make([]string, 0, len(s.ob.versions))
		for name := range s.ob.versions {
			names = append(names, name)
		}
		sort.Strings(names)
		for _, name := range names {
			vs := s.ob.versions[name]
			v := vs[len(vs)-1]
			if v.GoneStep >= 0 {
				continue
			}
			if fi, err := os.Stat(s.world.path(name)); err != nil || fi.Size() != v.Size || !fi.ModTime().Equal(v.Mtime) {
				continue // not (or no longer) on disk as recorded
			}
			if ok, _ := s.staticEligible(name, v.Size); !ok {
				continue
			}
			since := v.FakeAt + s.sc.Send.MinAge // at the latest (a link is as old as the link, a file as its mtime)
			if since < lastEnv {
				since = lastEnv
			}
			if end-since < 5*period+10*time.Minute {
				continue
			}
			after := 0 // scans that started once the file had been eligible for a while
			for _, t := range scanAt {
				if t > since+period {
					after++
				}
			}
			if after < 3 {
				continue // (the scheduler may let time pass while the scanner is held at its gate)
			}
			if !seenV[fmt.Sprintf("%s|%d|%d", name, v.Size, v.Mtime.UnixNano())] {
				s.violate("C17", "eligible-file-never-scanned", "%s (size %d) has been eligible since %s at the latest, %d scans have run since the start, none returned it", name, v.Size, since.Round(time.Second), nScans)
			}
		}
	})
	prevTx := s.hookTxBegin
	s.hookTxBegin = func(n *SendNode, t *txObs) {
		if prevTx != nil {
			prevTx(n, t)
		}
		for _, p := range t.Parts {
			if ok, why := s.staticEligible(p.Name, p.Size); !ok {
				s.violate("C17", "ineligible-file-transmitted", "%s is transmitted although it is not eligible (%s)", p.Name, why)
			}
			// announced size and time must be those of a version that existed
			found := false
			for _, v := range s.ob.versions[p.Name] {
				if v.Size == p.Size && v.Mtime.UnixNano() == p.TimeNs {
					found = true
				}
			}
			if !found {
				s.violate("C17", "announced-version-never-existed", "%s announced with size %d and time %d, no such version was ever on disk", p.Name, p.Size, p.TimeNs)
			}
		}
	}
	s.finalHooks = append(s.finalHooks, func() {
		for _, r := range s.ob.removes {
			size := int64(1)
			if vs := s.ob.versions[r.Name]; len(vs) > 0 {
				size = vs[len(vs)-1].Size
			}
			if ok, why := s.staticEligible(r.Name, size); !ok {
				s.violate("C17", "ineligible-file-removed", "%s was deleted at the source although it is not eligible (%s)", r.Name, why)
			}
		}
		// in the fault-free population a version is not transmitted more than once
		if s.sc.FaultFree && s.nFaults == 0 && s.noRequestFailed() {
			sent := map[string]int64{}
			for _, t := range s.ob.tx {
				for _, p := range t.Parts {
					sent[fmt.Sprintf("%s|%s|%d", p.Name, p.Hash, p.TimeNs)] += p.End - p.Beg
				}
			}
			for k, b := range sent {
				f := strings.Split(k, "|")
				var size int64
				for _, v := range s.ob.versions[f[0]] {
					if v.MD5 == f[1] {
						size = v.Size
					}
				}
				if size > 0 && b > size && s.versionsInFlightTogether(s.sc.Send.Name, f[0]) {
					// parts of the version it replaced were still streaming into the
					// staged file: the new version failed validation and had to be
					// sent again (see the known finding on versions in flight together)
					s.stat("probe:resent-after-versions-in-flight-together")
				} else if size > 0 && b > size {
					s.violate("C17", "version-sent-more-than-once", "fault-free run transmitted %d bytes of %s (size %d)", b, f[0], size)
				}
			}
		}
	})
}

func (s *Sim) disabledNow() bool {
	_, err := os.Lstat(filepath.Join(s.world.outDir, ".disabled"))
	return err == nil
}

func init() {
	generators["C17"] = func(seed uint64, tier string) []*Scenario {
		p := profile{maxFiles: 7, maxFaults: 2, orders: true, deletes: true, envChanges: 4, dirs: true, sendCrashes: 0,
			faultKinds: []string{"cut_req_at", "drop_resp"}}
		sc := genW1("C17", seed, p)
		g := &gen{r: rand.New(rand.NewPCG(seed, 0x17))}
		sc.SendCrashAt = 0
		sc.Send.MinAge = g.dur(0, 5*time.Second, 30*time.Second, 2*time.Minute)
		if g.pct(30) {
			sc.Send.IncludeHidden = true
		}
		if g.pct(40) {
			sc.Send.Ignore = [][]string{{`\.tmp$`}, {`^d1$`}, {`skip`}, {`^d2/`, `\.bak$`}}[g.n(4)]
		}
		if g.pct(30) {
			sc.Send.Include = [][]string{{`\.dat$`}, {`^d`, `^a`}, {`\.dat$`, `\.bin$`}}[g.n(3)]
		}
		if g.pct(30) {
			sc.Send.Tags = append(sc.Send.Tags, TagCfg{Pattern: `^disk\.|/disk\.`, Method: "disk", Order: "fifo"})
		}
		// ineligible and borderline files
		extra := []string{".hidden.dat", "d1/.secret/x.dat", ".hdir/y.dat", "a.01.dat.lck", "zero.dat", "d2/skip.me.dat", "x.tmp", "d1/in.dat", "disk.01.dat", "d0/disk.02.dat", "note.txt", "d2/z.bak", "data.bin"}
		for _, nm := range extra {
			if !g.pct(45) {
				continue
			}
			f := FileSpec{Name: nm, Size: int64(1 + g.n(2000)), Seed: g.u64(), Age: int64(20 + g.n(4000))}
			if nm == "zero.dat" {
				f.Size = 0
			}
			sc.Files = append(sc.Files, f)
		}
		// symbolic links to regular files (absolute and relative targets). The
		// link itself is created "now"; sts applies the minimum age to the link
		// and announces the target's time, so both are kept well apart from it.
		if g.pct(25) {
			for _, nm := range []string{"lnk.01.dat", "d1/lnk.02.dat"} {
				if g.pct(60) {
					sc.Files = append(sc.Files, FileSpec{Name: nm, Size: int64(1 + g.n(3000)), Seed: g.u64(), Age: int64(600 + g.n(3000)), Link: []string{"abs", "rel"}[g.n(2)]})
				}
			}
		}
		// ages on both sides of the minimum age
		ma := int64(sc.Send.MinAge / time.Second)
		for i := range sc.Files {
			if g.pct(35) && sc.Files[i].Link == "" {
				sc.Files[i].Age = ma + int64(g.pick(-3, -1, 0, 1, 3, 30))
				if sc.Files[i].Age < 0 {
					sc.Files[i].Age = 0
				}
			}
		}
		// the disable marker coming and going
		if g.pct(25) {
			at := time.Duration(g.n(40)) * time.Second
			sc.Env = append(sc.Env, &envAction{Kind: "disable", At: at}, &envAction{Kind: "enable", At: at + time.Duration(10+g.n(200))*time.Second})
		}
		return one(sc)
	}
}
