package main

// Generators for world W2 (scripted peer): C09, C14, C15.

import (
	"fmt"
	"math/rand/v2"
	"time"
)

func baseW2(prop string, seed uint64) (*Scenario, *gen) {
	g := &gen{r: rand.New(rand.NewPCG(seed, 0x22aa))}
	sc := &Scenario{Prop: prop, Mode: "w2", Seed: seed}
	ep, _ := time.Parse(time.RFC3339, epochs[g.n(len(epochs))])
	sc.EpochUnix = ep.Unix() + int64(g.n(50))
	sc.Send.Name = "src1"
	sc.Recv.Compression = g.pick(0, 0, 1, 9)
	sc.MaxInFlight = 1 + g.n(4)
	sc.NetFinePct = g.pick(0, 0, 30, 100)
	sc.NetWindow = g.pick(0, 0, 4096, 100)
	sc.TimeWeight = g.pick(1, 1, 2)
	sc.MaxSteps = 20000
	sc.MaxFake = 80 * time.Hour
	sc.Settle = 2 * time.Minute
	sc.DownTime = g.dur(time.Second, 10*time.Second)
	if g.pct(30) {
		for _, o := range []string{"stage.prepare", "stage.receive.begin", "stage.receive.written", "stage.received", "stage.scan", "stage.pathlock"} {
			if g.pct(30) {
				sc.Hot = append(sc.Hot, o)
			}
		}
	}
	return sc, g
}

// partition [0,size) into pieces
func cutPieces(g *gen, size int64) []rng {
	var out []rng
	var pos int64
	for pos < size {
		step := int64(1 + g.n(int(size/2)+1))
		if g.pct(20) {
			step = 1
		}
		end := pos + step
		if end > size {
			end = size
		}
		out = append(out, rng{pos, end})
		pos = end
	}
	return out
}

func init() {
	generators["C09"] = func(seed uint64, tier string) []*Scenario {
		sc, g := baseW2("C09", seed)
		// answers assembled over several gates (listing, part count) are
		// snapshots that go stale while the query itself is parked; they are
		// judged as a whole, so those two gates are not held in C09 runs
		var hot []string
		for _, h := range sc.Hot {
			if h != "stage.received" && h != "stage.scan" {
				hot = append(hot, h)
			}
		}
		sc.Hot = hot
		nf := 1 + g.n(3)
		for i := 0; i < nf; i++ {
			sc.PeerFiles = append(sc.PeerFiles, PeerFile{Name: fmt.Sprintf("f%d.dat", i), Size: int64(1 + g.n(3000)), Seed: g.u64(), TimeS: int64(100 + g.n(5000))})
		}
		// a second version of the first name (hash/size change between parts, and back)
		if g.pct(35) {
			f := sc.PeerFiles[0]
			f.Seed = g.u64()
			if g.pct(50) {
				f.Size = int64(1 + g.n(3000))
			}
			sc.PeerFiles = append(sc.PeerFiles, f)
		}
		var pool []PeerPart
		for fi, f := range sc.PeerFiles {
			for _, p := range cutPieces(g, f.Size) {
				pool = append(pool, PeerPart{File: fi, Beg: p.Beg, End: p.End})
				if g.pct(15) { // identical duplicate
					pool = append(pool, PeerPart{File: fi, Beg: p.Beg, End: p.End})
				}
				if g.pct(15) && p.End-p.Beg > 2 { // nested
					pool = append(pool, PeerPart{File: fi, Beg: p.Beg + 1, End: p.End - 1})
				}
				if g.pct(15) && p.End < f.Size { // overlapping the next one
					e := p.End + 1 + int64(g.n(int(f.Size-p.End)))
					pool = append(pool, PeerPart{File: fi, Beg: p.Beg, End: e})
				}
			}
		}
		// order: shuffled, or mostly ascending
		if g.pct(70) {
			g.r.Shuffle(len(pool), func(i, j int) { pool[i], pool[j] = pool[j], pool[i] })
		}
		for len(pool) > 0 {
			k := 1 + g.n(4)
			if k > len(pool) {
				k = len(pool)
			}
			op := PeerOp{Kind: "data", Source: "src1", Parts: pool[:k], Gzip: g.pick(0, 0, 1, 9)}
			pool = pool[k:]
			if g.pct(8) {
				// body that ends early, inside the data of this request
				var tot int
				for _, p := range op.Parts {
					tot += int(p.End - p.Beg)
				}
				if tot > 1 && op.Gzip == 0 {
					op.Truncate = 200 + 60*len(op.Parts) + g.n(tot)
				}
			}
			sc.Peer = append(sc.Peer, op)
			switch g.n(8) {
			case 0:
				sc.Peer = append(sc.Peer, PeerOp{Kind: "partials", Source: "src1"})
			case 1:
				q := sc.Peer[g.n(len(sc.Peer))]
				if q.Kind == "data" {
					sc.Peer = append(sc.Peer, PeerOp{Kind: "recovery", Source: "src1", Parts: q.Parts, Gzip: g.pick(0, 9)})
				}
			case 2:
				sc.Peer = append(sc.Peer, PeerOp{Kind: "poll", Source: "src1", Names: []string{sc.PeerFiles[g.n(len(sc.PeerFiles))].Name}})
			}
		}
		sc.Peer = append(sc.Peer, PeerOp{Kind: "partials", Source: "src1", Sync: true})
		if g.pct(25) {
			// a name that was delivered before, then questions about a NEW version
			// of it of which nothing (or only a part) has been sent: what the
			// receiver holds of the old version must not be claimed for the new one
			old := PeerFile{Name: "again.dat", Size: int64(50 + g.n(800)), Seed: g.u64(), TimeS: 4000}
			nw := old
			nw.Seed, nw.TimeS = g.u64(), 300
			if g.pct(50) {
				nw.Size = int64(50 + g.n(800))
			}
			sc.PeerFiles = append(sc.PeerFiles, old, nw)
			oi, ni := len(sc.PeerFiles)-2, len(sc.PeerFiles)-1
			pro := []PeerOp{
				{Kind: "data", Source: "src1", Parts: []PeerPart{{oi, 0, old.Size}}},
				{Kind: "settle", Sync: true},
			}
			if g.pct(50) {
				pro = append(pro, PeerOp{Kind: "poll", Source: "src1", Names: []string{"again.dat"}, Sync: true})
			}
			cut := 1 + int64(g.n(int(nw.Size-1)))
			if g.pct(40) {
				pro = append(pro, PeerOp{Kind: "data", Source: "src1", Parts: []PeerPart{{ni, 0, cut}}, Sync: true})
			}
			pro = append(pro, PeerOp{Kind: "recovery", Source: "src1", Parts: []PeerPart{{ni, 0, cut}, {ni, cut, nw.Size}}, Sync: true})
			pro = append(pro, PeerOp{Kind: "recovery", Source: "src1", Parts: []PeerPart{{ni, cut, nw.Size}}, Sync: true})
			pro = append(pro, PeerOp{Kind: "partials", Source: "src1", Sync: true})
			sc.Peer = append(pro, sc.Peer...)
		}
		return one(sc)
	}

	generators["C14"] = func(seed uint64, tier string) []*Scenario {
		sc, g := baseW2("C14", seed)
		if g.pct(50) {
			sc.Recv.Sources = []string{"src1", "othersrc"}
		}
		frag := []string{"../", "../../", "/", "..", "./", "//", "a/../../", "%2e%2e/", "..%2f", `..\`, "", "x/../../../", "/abs/"}
		evil := func() string {
			n := 1 + g.n(3)
			s := ""
			for i := 0; i < n; i++ {
				s += frag[g.n(len(frag))]
			}
			targets := []string{"secret.txt", "other/keep.dat", "etc/passwd", "emptydir/new.txt", "r0/final/othersrc/theirs.dat", "r0/logs/incoming_from/othersrc/202001/01", "r0/stage/othersrc/pending", "escaped.bin"}
			return s + targets[g.n(len(targets))]
		}
		nops := 2 + g.n(6)
		// an ordinary poll first: it makes the receiver load its delivery history
		sc.Peer = append(sc.Peer, PeerOp{Kind: "poll", Source: "src1", Names: []string{"nothing.dat"}, Sync: true})
		for i := 0; i < nops; i++ {
			f := PeerFile{Name: fmt.Sprintf("ok%d.dat", i), Size: int64(1 + g.n(600)), Seed: g.u64(), TimeS: 500}
			switch g.n(4) {
			case 0:
				f.Name = evil()
			case 1:
				f.Renamed = evil()
			case 2:
				f.Prev = evil()
			case 3:
				f.Name = evil()
				f.Renamed = evil()
			}
			sc.PeerFiles = append(sc.PeerFiles, f)
			fi := len(sc.PeerFiles) - 1
			op := PeerOp{Kind: "data", Source: "src1", Parts: []PeerPart{{File: fi, Beg: 0, End: f.Size}}}
			if g.pct(30) && f.Size >= 3 {
				// the same file in several slices of one request: the first slice(s)
				// announce harmless names, the evil rename / predecessor comes with a
				// later one (the slice that completes the file decides where it goes)
				clean := f
				clean.Name = fmt.Sprintf("ok%d.dat", i)
				clean.Renamed, clean.Prev = "", ""
				bad := clean
				if g.pct(70) {
					bad.Renamed = evil()
				} else {
					bad.Prev = evil()
				}
				sc.PeerFiles[fi] = clean
				sc.PeerFiles = append(sc.PeerFiles, bad)
				bi := len(sc.PeerFiles) - 1
				cut := 1 + int64(g.n(int(f.Size-1)))
				op.Parts = []PeerPart{{File: fi, Beg: 0, End: cut}, {File: bi, Beg: cut, End: f.Size}}
				if g.pct(30) && f.Size-cut >= 2 {
					mid := cut + 1 + int64(g.n(int(f.Size-cut-1)))
					op.Parts = []PeerPart{{File: fi, Beg: 0, End: cut}, {File: bi, Beg: cut, End: mid}, {File: fi, Beg: mid, End: f.Size}}
				}
				f = clean
			}
			if g.pct(25) {
				op.Sep = []string{`\`, ":", "|", "."}[g.n(4)]
			}
			if g.pct(20) {
				op.Source = []string{"../othersrc", "src1/../othersrc", "/abs", "..", "src1/..", "othersrc/../../x"}[g.n(6)]
				// a staging area that has never been polled searches its log from
				// year 1 for an unknown predecessor (minutes of real CPU): keep
				// unknown predecessors to the polled source
				for _, pp := range op.Parts {
					sc.PeerFiles[pp.File].Prev = ""
				}
			}
			sc.Peer = append(sc.Peer, op)
			switch g.n(6) {
			case 0:
				sc.Peer = append(sc.Peer, PeerOp{Kind: "poll", Source: "src1", Names: []string{evil(), f.Name}})
			case 1:
				sc.Peer = append(sc.Peer, PeerOp{Kind: "recovery", Source: "src1", Parts: op.Parts})
			case 2:
				sc.Peer = append(sc.Peer, PeerOp{Kind: "static-get", Source: "src1", Path: evil()})
			case 3:
				sc.Peer = append(sc.Peer, PeerOp{Kind: "static-del", Source: "src1", Path: evil()})
			case 4:
				sc.Peer = append(sc.Peer, PeerOp{Kind: "partials", Source: op.Source})
			}
		}
		// let deferred effects happen: finalisation, the cleaner, a prune
		sc.Peer = append(sc.Peer, PeerOp{Kind: "wait", Dur: 45 * time.Second, Sync: true})
		sc.Peer = append(sc.Peer, PeerOp{Kind: "clean", Source: "src1", Sync: true})
		sc.Peer = append(sc.Peer, PeerOp{Kind: "static-get", Source: "src1", Path: "mine.txt", Sync: true})
		sc.Settle = 30 * time.Second
		sc.MaxSteps = 4000
		return one(sc)
	}

	generators["C15"] = func(seed uint64, tier string) []*Scenario {
		sc, g := baseW2("C15", seed)
		switch g.n(4) {
		case 0:
			sc.Recv.Sources = []string{"src1"}
		case 1:
			sc.Recv.Sources = []string{"src1", "zz9"}
			sc.Recv.Keys = []string{"k3y", "otherkey"}
		case 2:
			sc.Recv.Keys = []string{"k3y"}
		case 3:
			sc.Recv.Sources = []string{"src1", "a/b", "x.y"}
			sc.Recv.Keys = []string{"k3y", "zkey"}
		}
		goodKey := ""
		if len(sc.Recv.Keys) > 0 {
			goodKey = "k3y"
		}
		// legitimate traffic first: one delivered file, one partial
		sc.PeerFiles = []PeerFile{
			{Name: "good.dat", Size: int64(10 + g.n(500)), Seed: g.u64(), TimeS: 900},
			{Name: "part.dat", Size: int64(100 + g.n(500)), Seed: g.u64(), TimeS: 800},
			{Name: "intruder.dat", Size: int64(10 + g.n(200)), Seed: g.u64(), TimeS: 700},
		}
		sc.Peer = append(sc.Peer, PeerOp{Kind: "data", Source: "src1", Key: goodKey, Parts: []PeerPart{{0, 0, sc.PeerFiles[0].Size}, {1, 0, 50}}})
		probe := func() {
			sc.Peer = append(sc.Peer, PeerOp{Kind: "partials", Source: "src1", Key: goodKey, Sync: true, Label: "probe"})
			sc.Peer = append(sc.Peer, PeerOp{Kind: "poll", Source: "src1", Key: goodKey, Names: []string{"good.dat", "part.dat", "intruder.dat"}, Sync: true, Label: "probe"})
		}
		sc.Peer = append(sc.Peer, PeerOp{Kind: "wait", Dur: 5 * time.Second, Sync: true})
		probe()
		badSrc := []string{"", "SRC1", "src2", "src1x", "src1/../zz9", ".*", "src1|zz9", "zz9", "[a-z]+", "a/b/../b"}
		badKey := []string{"", "K3Y", "wrong", "k3yy", "otherkey2", ".*"}
		n := 3 + g.n(6)
		for i := 0; i < n; i++ {
			op := PeerOp{Source: "src1", Key: goodKey, Label: "unauth"}
			mode := g.n(3)
			if len(sc.Recv.Sources) == 0 {
				mode = 1
			}
			if len(sc.Recv.Keys) == 0 {
				mode = 0
			}
			switch mode {
			case 0:
				for {
					op.Source = badSrc[g.n(len(badSrc))]
					if !contains(sc.Recv.Sources, op.Source) {
						break
					}
				}
			case 1:
				for {
					op.Key = badKey[g.n(len(badKey))]
					if !contains(sc.Recv.Keys, op.Key) {
						break
					}
				}
			case 2:
				// a valid source with a key that is not in the list
				op.Source = sc.Recv.Sources[g.n(len(sc.Recv.Sources))]
				op.Key = "notakey"
			}
			if g.pct(30) {
				// credentials in the query string instead of the header
				op.NoSrcHdr = true
				op.Query = "&source=" + op.Source + "&key=" + op.Key
				op.Key = ""
			}
			switch g.n(6) {
			case 0, 1:
				op.Kind = "data"
				op.Parts = []PeerPart{{2, 0, sc.PeerFiles[2].Size}, {1, 50, sc.PeerFiles[1].Size}}
			case 2:
				op.Kind = "recovery"
				op.Parts = []PeerPart{{1, 0, 50}}
			case 3:
				op.Kind = "poll"
				op.Names = []string{"good.dat", "part.dat"}
			case 4:
				op.Kind = "partials"
			case 5:
				op.Kind = []string{"static-get", "static-del"}[g.n(2)]
				op.Path = "mine.txt"
			}
			op.Sync = true
			sc.Peer = append(sc.Peer, op)
			probe()
		}
		// restart with staged state; requests arrive at every moment of start-up recovery
		if g.pct(60) {
			if g.pct(60) {
				// the partial is completed right before the crash: with luck it is
				// still waiting to be validated, and start-up recovery has a file
				// to validate while the requests below arrive
				sc.Peer = append(sc.Peer, PeerOp{Kind: "data", Source: "src1", Key: goodKey, Parts: []PeerPart{{1, 50, sc.PeerFiles[1].Size}}})
			}
			sc.Peer = append(sc.Peer, PeerOp{Kind: "crash", Sync: true})
			sc.GateWeight = map[string]int{"stage.recover.begin": g.pick(1, 3, 10), "stage.process.begin": g.pick(1, 10)}
			for i := 0; i < 2+g.n(3); i++ {
				op := PeerOp{Source: "src1", Key: goodKey, Label: "during-recovery"}
				switch g.n(3) {
				case 0:
					op.Kind = "data"
					op.Parts = []PeerPart{{1, 50, sc.PeerFiles[1].Size}}
				case 1:
					op.Kind = "partials"
				case 2:
					op.Kind = "poll"
					op.Names = []string{"good.dat", "part.dat"}
				}
				sc.Peer = append(sc.Peer, op)
			}
		}
		sc.MaxInFlight = 3
		return one(sc)
	}
}
