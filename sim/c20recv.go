package main

import "sync"

// namesBeingReceived: "<source>/<name>" -> hash of the version, for every file
// of which a part is on its way in at this moment: a Receive call that has not
// returned (both worlds), or - with the scripted peer - a data request that
// was issued and has not been answered (which also covers the time between
// Prepare, which creates the partial, and the Receive of a later part of the
// same request).
func (s *Sim) namesBeingReceived() map[string]string {
	out := map[string]string{}
	spanMu.Lock()
	for _, sp := range spans[s] {
		if sp.End < 0 {
			out[sp.Src+"/"+sp.Name] = sp.Hash
		}
	}
	spanMu.Unlock()
	if st := s.w2; st != nil {
		for _, pc := range st.calls {
			if pc.Done {
				continue
			}
			op := st.opOf[pc]
			if op == nil || op.Kind != "data" {
				continue
			}
			for _, pp := range op.Parts {
				if pp.File < 0 || pp.File >= len(s.sc.PeerFiles) {
					continue
				}
				f := &s.sc.PeerFiles[pp.File]
				out[op.Source+"/"+f.Name] = s.peerFileHash(f)
			}
		}
	}
	return out
}

// versions whose loss a cleaning pass has already been held responsible for
// under its own oracle id (cleaned-partial-of-file-being-received): the
// end-of-run check does not report them a second time under the general one
var (
	c20Mu        sync.Mutex
	c20Explained = map[*Sim]map[string]bool{}
)

func (s *Sim) c20Explain(rel, hash string) {
	c20Mu.Lock()
	defer c20Mu.Unlock()
	if _, ok := c20Explained[s]; !ok {
		for k := range c20Explained {
			delete(c20Explained, k) // earlier simulations of this process
		}
		c20Explained[s] = map[string]bool{}
	}
	c20Explained[s][rel+"#"+hash] = true
}

func (s *Sim) c20IsExplained(rel, hash string) bool {
	c20Mu.Lock()
	defer c20Mu.Unlock()
	return c20Explained[s][rel+"#"+hash]
}
