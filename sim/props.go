package main

// Per-property scenario generators (one run index -> one or more scenarios).

func one(sc *Scenario) []*Scenario { return []*Scenario{sc} }

func init() {
	generators["C01"] = func(seed uint64, tier string) []*Scenario {
		p := profile{maxFiles: 8, maxFaults: 3, orders: true, deletes: true, renames: true, envChanges: 3, fineNet: true, hotGates: true,
			recvCrashes: 1, sendCrashes: 1, corrupt: 2, recvErrs: 1, dirs: true,
			faultKinds: []string{"flip_req", "flip_req", "cut_req_at", "cut_after_recorded", "drop_resp", "cut_resp_at"}}
		return one(genW1("C01", seed, p))
	}
	generators["C02"] = func(seed uint64, tier string) []*Scenario {
		p := profile{maxFiles: 6, maxFaults: 3, orders: true, deletes: true, envChanges: 4, hotGates: true, sendCrashes: 1, recvCrashes: 1, smallPoll: true,
			corrupt: 1, faultKinds: []string{"drop_resp", "cut_resp_at", "flip_req", "cut_req_at", "stall"}}
		sc := genW1("C02", seed, p)
		forceDelete(sc, seed)
		return one(sc)
	}
	generators["C03"] = func(seed uint64, tier string) []*Scenario {
		p := profile{maxFiles: 8, maxFaults: 6, orders: true, deletes: true, renames: true, fineNet: true, hotGates: true, recvCrashes: 1, sendCrashes: 1,
			corrupt: 1, recvErrs: 2, dirs: true}
		return one(genW1("C03", seed, p))
	}
	generators["C05"] = func(seed uint64, tier string) []*Scenario {
		if (tier == "quick" && seed%100 == 7) || (tier != "quick" && seed%25 == 7) {
			return one(genC05Age(seed)) // delivery known only from the log after cache ageing (W2)
		}
		p := profile{maxFiles: 6, maxFaults: 5, orders: true, deletes: false, fineNet: true, hotGates: true, recvCrashes: 1, sendCrashes: 1, smallPoll: true,
			faultKinds: []string{"drop_resp", "drop_resp", "cut_resp_at", "stall", "cut_after_recorded"}}
		sc := genW1("C05", seed, p)
		return one(sc)
	}
}

// forceDelete makes most C02 scenarios delete at the source.
func forceDelete(sc *Scenario, seed uint64) {
	if seed%4 != 0 {
		for i := range sc.Send.Tags {
			sc.Send.Tags[i].Delete = true
			sc.Send.Tags[i].DeleteSet = true
		}
	}
}
