package main

// Per-property scenario generators (one run index -> one or more scenarios).

import (
	"math/rand/v2"
	"sort"
	"time"
)

func one(sc *Scenario) []*Scenario { return []*Scenario{sc} }

func init() {
	generators["C01"] = func(seed uint64, tier string) []*Scenario {
		p := profile{maxFiles: 8, maxFaults: 3, orders: true, deletes: true, renames: true, envChanges: 3, fineNet: true, hotGates: true,
			recvCrashes: 1, sendCrashes: 1, corrupt: 2, recvErrs: 1, dirs: true,
			faultKinds: []string{"flip_req", "flip_req", "cut_req_at", "cut_after_recorded", "drop_resp", "cut_resp_at"}}
		return one(genW1("C01", seed, p))
	}
	generators["C02"] = func(seed uint64, tier string) []*Scenario {
		p := profile{maxFiles: 6, maxFaults: 3, orders: true, deletes: true, envChanges: 4, hotGates: true, sendCrashes: 1, recvCrashes: 1, smallPoll: true,
			corrupt: 1, faultKinds: []string{"drop_resp", "cut_resp_at", "flip_req", "cut_req_at", "stall"}}
		sc := genW1("C02", seed, p)
		forceDelete(sc, seed)
		if seed%6 == 5 && len(sc.Files) > 0 {
			// confirmed but not yet deleted (delete delay), and then a NEW version
			// appears under the name that is too young for the scanner to return
			g := &gen{r: rand.New(rand.NewPCG(seed, 0x2c))}
			sc.Send.MinAge = g.dur(30*time.Second, 60*time.Second, 2*time.Minute)
			for i := range sc.Send.Tags {
				sc.Send.Tags[i].Delete, sc.Send.Tags[i].DeleteSet = true, true
				sc.Send.Tags[i].DeleteDelay = g.dur(time.Minute, 3*time.Minute, 5*time.Minute)
			}
			for i := range sc.Files {
				if sc.Files[i].Age < int64(sc.Send.MinAge/time.Second)+5 {
					sc.Files[i].Age = int64(sc.Send.MinAge/time.Second) + 5 + int64(g.n(600))
				}
			}
			for k := 0; k < 1+g.n(2); k++ {
				f := sc.Files[g.n(len(sc.Files))]
				sc.Env = append(sc.Env, &envAction{Kind: "replace", At: time.Duration(15+g.n(120)) * time.Second, Name: f.Name, Size: int64(1 + g.n(2000)), Seed: g.u64(), Age: int64(g.n(5))})
			}
			sort.SliceStable(sc.Env, func(i, j int) bool { return sc.Env[i].At < sc.Env[j].At })
		}
		return one(sc)
	}
	generators["C03"] = func(seed uint64, tier string) []*Scenario {
		p := profile{maxFiles: 8, maxFaults: 6, orders: true, deletes: true, renames: true, fineNet: true, hotGates: true, recvCrashes: 1, sendCrashes: 1,
			corrupt: 1, recvErrs: 2, dirs: true}
		return one(genW1("C03", seed, p))
	}
	generators["C05"] = func(seed uint64, tier string) []*Scenario {
		if (tier == "quick" && seed%100 == 7) || (tier != "quick" && seed%25 == 7) {
			return one(genC05Age(seed)) // delivery known only from the log after cache ageing (W2)
		}
		if seed%10 == 3 {
			return one(genC05Restart(seed)) // retransmissions after a receiver restart (W2)
		}
		p := profile{maxFiles: 6, maxFaults: 5, orders: true, deletes: false, fineNet: true, hotGates: true, recvCrashes: 1, sendCrashes: 1, smallPoll: true,
			faultKinds: []string{"drop_resp", "drop_resp", "cut_resp_at", "stall", "cut_after_recorded"}}
		sc := genW1("C05", seed, p)
		return one(sc)
	}
}

// forceDelete makes most C02 scenarios delete at the source.
func forceDelete(sc *Scenario, seed uint64) {
	if seed%4 != 0 {
		for i := range sc.Send.Tags {
			sc.Send.Tags[i].Delete = true
			sc.Send.Tags[i].DeleteSet = true
		}
	}
}
