package main

// C04, receiver clause, in world W2: predecessor chains, forests, self
// references and cycles announced by a scripted peer, in any arrival order,
// with the 10 s retry timers, the cleaner and restarts in between.

import (
	"fmt"
	"math/rand/v2"
	"strings"
	"time"
)

func genC04W2(seed uint64) *Scenario {
	sc, _ := baseW2("C04", seed)
	g := &gen{r: rand.New(rand.NewPCG(seed, 0x404))}
	sc.Extra = map[string]any{"c04w2": true}
	sc.MaxFake = 10 * 24 * time.Hour
	sc.Settle = time.Minute
	sc.MaxSteps = 8000
	sc.MaxInFlight = 1 + g.n(3)
	sc.GateWeight = map[string]int{"stage.finalize.item": g.pick(3, 10), "stage.process.begin": g.pick(3, 10)}
	names := []string{"a.1", "a.10", "a.2", "x/a.1", "b.dat", "b.dat.gz", "c.0", "c.00", "d/e.f"}
	g.r.Shuffle(len(names), func(i, j int) { names[i], names[j] = names[j], names[i] })
	n := 2 + g.n(6)
	if g.pct(10) {
		n = 26 + g.n(6) // longer than the validator pool
		names = nil
		for i := 0; i < n; i++ {
			names = append(names, fmt.Sprintf("long.%03d", i))
		}
	}
	names = names[:n]
	shape := g.n(5)
	for i, nm := range names {
		f := PeerFile{Name: nm, Size: int64(1 + g.n(400)), Seed: g.u64(), TimeS: int64(1000 - i)}
		switch shape {
		case 0: // chain
			if i > 0 {
				f.Prev = names[i-1]
			}
		case 1: // forest: every file hangs off one of the first two
			if i > 1 {
				f.Prev = names[g.n(2)]
			}
		case 2: // chain with a self reference somewhere
			if i > 0 {
				f.Prev = names[i-1]
			}
			if i == n/2 {
				f.Prev = nm
			}
		case 3: // a cycle at the head, a tail hanging off it
			if i > 0 {
				f.Prev = names[i-1]
			}
			if i == 0 {
				f.Prev = names[1+g.n(imin(2, n-1))]
			}
		case 4: // chain whose root is never sent but was delivered by an earlier incarnation
			if i > 0 {
				f.Prev = names[i-1]
			}
		}
		sc.PeerFiles = append(sc.PeerFiles, f)
	}
	sc.Peer = append(sc.Peer, PeerOp{Kind: "poll", Source: "src1", Names: []string{"nothing"}, Sync: true})
	order := g.r.Perm(n)
	if shape == 4 {
		// root first, delivered, then the receiver restarts (memory of it only in the log)
		sc.Peer = append(sc.Peer, PeerOp{Kind: "data", Source: "src1", Parts: []PeerPart{{0, 0, sc.PeerFiles[0].Size}}})
		sc.Peer = append(sc.Peer, PeerOp{Kind: "settle", Sync: true})
		sc.Peer = append(sc.Peer, PeerOp{Kind: "crash", Sync: true})
		if g.pct(50) {
			// (the receiver looks for an unknown predecessor in its log one more
			// day back with every 10 s retry)
			sc.Peer = append(sc.Peer, PeerOp{Kind: "wait", Dur: g.dur(26*time.Hour, 50*time.Hour, 75*time.Hour), Sync: true})
		}
	}
	for _, i := range order {
		if shape == 4 && i == 0 {
			continue
		}
		f := sc.PeerFiles[i]
		if g.pct(12) && f.Size > 1 {
			// the predecessor fails validation first and is sent again
			bad := f
			bad.BadHash = true
			sc.PeerFiles = append(sc.PeerFiles, bad)
			sc.Peer = append(sc.Peer, PeerOp{Kind: "data", Source: "src1", Parts: []PeerPart{{len(sc.PeerFiles) - 1, 0, f.Size}}})
			// a sender re-sends only after it was told "failed": the bad copy is judged first
			sc.Peer = append(sc.Peer, PeerOp{Kind: "settle", Sync: true})
		}
		sc.Peer = append(sc.Peer, PeerOp{Kind: "data", Source: "src1", Parts: []PeerPart{{i, 0, f.Size}}})
		switch g.n(9) {
		case 0:
			sc.Peer = append(sc.Peer, PeerOp{Kind: "wait", Dur: 11 * time.Second})
		case 1:
			sc.Peer = append(sc.Peer, PeerOp{Kind: "clean", Source: "src1"})
		case 2:
			sc.Peer = append(sc.Peer, PeerOp{Kind: "poll", Source: "src1", Names: []string{f.Name}})
		case 3:
			if g.pct(40) {
				sc.Peer = append(sc.Peer, PeerOp{Kind: "crash", Sync: true})
			}
		case 4:
			sc.Peer = append(sc.Peer, PeerOp{Kind: "wait", Dur: 31 * time.Minute})
		}
	}
	// enough time for the retry timers and two cleaner periods, then one explicit pass
	sc.Peer = append(sc.Peer, PeerOp{Kind: "wait", Dur: 65 * time.Minute, Sync: true})
	sc.Peer = append(sc.Peer, PeerOp{Kind: "clean", Source: "src1", Sync: true})
	sc.Peer = append(sc.Peer, PeerOp{Kind: "wait", Dur: 30 * time.Second, Sync: true})
	return sc
}

func imin(a, b int) int {
	if a < b {
		return a
	}
	return b
}

// c04w2Arrival: f may only arrive after its announced predecessor arrived or
// was logged - unless its chain of predecessors runs into a cycle and a
// cleaning pass has happened (the cleaner gives the order up there).
func (s *Sim) c04w2Arrival(n *RecvNode, a *arrival) {
	if !s.on("C04") || s.sc.Mode != "w2" {
		return
	}
	name := trimSrc(a.Path, "src1")
	var f *PeerFile
	for i := range s.sc.PeerFiles {
		pf := &s.sc.PeerFiles[i]
		if pf.Name == name && !pf.BadHash && s.peerFileHash(pf) == a.MD5 {
			f = pf
		}
	}
	if f == nil {
		if s.on("C04") {
			s.violate("C04", "delivered-unvalidated", "%s arrived with content %s that matches no announced good version", a.Path, short(a.MD5))
		}
		return
	}
	if f.Prev == "" || f.Prev == f.Name {
		return
	}
	for _, b := range s.ob.arrivals {
		if b != a && trimSrc(b.Path, "src1") == f.Prev {
			return
		}
	}
	if s.logHas(n, "src1", f.Prev, "") > 0 {
		return
	}
	// chain into a cycle?
	seen := map[string]bool{}
	cur := f.Name
	cyc := false
	for cur != "" {
		if seen[cur] {
			cyc = true
			break
		}
		seen[cur] = true
		next := ""
		for i := range s.sc.PeerFiles {
			if s.sc.PeerFiles[i].Name == cur {
				next = s.sc.PeerFiles[i].Prev
			}
		}
		if next == cur {
			break // self reference counts as "no predecessor"
		}
		cur = next
	}
	if cyc && s.stats["h1:stage.clean.begin"] > 0 {
		s.stat("probe:cycle-released")
		return
	}
	s.violate("C04", "delivered-before-predecessor", "%s arrived although its announced predecessor %s has neither arrived nor been logged (cycle=%v, cleaner passes=%d)", name, f.Prev, cyc, s.stats["h1:stage.clean.begin"])
}

// c04w2Final: everything sent completely and not blocked behind a missing
// predecessor must have been delivered by the end.
func (s *Sim) c04w2Final() {
	if !s.on("C04") || s.sc.Mode != "w2" || !s.settledFinal {
		return
	}
	sent := map[string]bool{}
	for _, op := range s.sc.Peer {
		if op.Kind == "data" {
			for _, p := range op.Parts {
				if f := s.sc.PeerFiles[p.File]; !f.BadHash {
					sent[f.Name] = true
				}
			}
		}
	}
	for i := range s.sc.PeerFiles {
		f := &s.sc.PeerFiles[i]
		if f.BadHash || !sent[f.Name] {
			continue
		}
		// blocked legitimately if some predecessor up the chain was never sent and is in no log
		blocked := false
		cur := f.Prev
		hops := 0
		for cur != "" && cur != f.Name && hops < 100 {
			hops++
			if !sent[cur] && s.recv != nil && s.logHas(s.recv, "src1", cur, "") == 0 {
				blocked = true
			}
			nx := ""
			for j := range s.sc.PeerFiles {
				if s.sc.PeerFiles[j].Name == cur {
					nx = s.sc.PeerFiles[j].Prev
				}
			}
			if nx == cur {
				break
			}
			cur = nx
		}
		if blocked {
			continue
		}
		if !s.w2m.delivered("src1", f.Name, s.peerFileHash(f)) && len(s.ob.crashes) == 0 {
			s.violate("C04", "held-file-never-released", "%s (predecessor %q) was received and validated, its predecessors were all delivered or form a cycle, but it was never delivered after %d cleaner passes", f.Name, f.Prev, s.stats["h1:stage.clean.begin"])
		}
	}
}

var _ = strings.TrimSpace
