package main

// Oracles. Each check* hook is called from the observation layer; an oracle
// is active when its property is the one under check (s.on).

import (
	"fmt"
	"os"
	"runtime"
	"path/filepath"
	"sort"
	"strings"

	"github.com/arm-doe/sts"
)

func (s *Sim) on(props ...string) bool {
	for _, p := range props {
		if s.sc.Prop == p {
			return true
		}
	}
	return false
}

// ---------------------------------------------------------------- helpers

// announcedFor returns hashes the sender announced on the wire for a final
// path (through rename or not), with the source names.
func (s *Sim) announcedFor(finalRel string) map[string]string {
	src := s.sc.Send.Name
	rel := strings.TrimPrefix(finalRel, src+"/")
	out := map[string]string{}
	for _, t := range s.ob.tx {
		for _, p := range t.Parts {
			target := p.Name
			if p.Renamed != "" {
				target = p.Renamed
			}
			if target == rel {
				out[p.Hash] = p.Name
			}
		}
	}
	for _, x := range s.extraAnnounced {
		target := x.Name
		if x.Renamed != "" {
			target = x.Renamed
		}
		if target == rel {
			out[x.Hash] = x.Name
		}
	}
	return out
}

func (s *Sim) versionWithMD5(name, md5 string) *srcVersion {
	for _, v := range s.ob.versions[name] {
		if v.MD5 == md5 {
			return v
		}
	}
	return nil
}

func (s *Sim) logHas(n *RecvNode, source, name, hash string) int {
	c := 0
	for _, l := range readRecvLog(n, source) {
		if l.Name == name && (hash == "" || l.Hash == hash) {
			c++
		}
	}
	return c
}

// receiverHoldsValidated: does the receiving side durably hold a validated
// copy of (name, md5)? (.wait in staging with that content, or delivered.)
func (s *Sim) receiverHoldsValidated(name, md5 string) (bool, string) {
	for _, a := range s.ob.arrivals {
		if a.MD5 == md5 && s.arrivalIsOf(a, name) {
			return true, "arrived"
		}
	}
	n := s.recv
	if n == nil && len(s.recvAll) > 0 {
		n = s.recvAll[len(s.recvAll)-1] // down: the crash image is the durable state
	}
	if n == nil {
		return false, "no receiver"
	}
	src := s.sc.Send.Name
	p := filepath.Join(n.stageDir(), src, name+".wait")
	if m, _, err := fileMD5(p); err == nil {
		if m == md5 {
			return true, "wait"
		}
		return false, "wait file has other content " + short(m)
	}
	// in flight between .wait and final (.lck in final dir) counts as held
	var found bool
	filepath.Walk(n.finalDir(), func(fp string, info os.FileInfo, err error) error {
		if err == nil && !info.IsDir() {
			if m, _, e := fileMD5(fp); e == nil && m == md5 {
				found = true
			}
		}
		return nil
	})
	if found {
		return true, "final"
	}
	return false, "absent"
}

// ---------------------------------------------------------------- C01 / C05 at arrival

func (s *Sim) checkArrival(n *RecvNode, a *arrival) {
	src := strings.SplitN(a.Path, "/", 2)[0]
	if s.sc.Mode == "w2" && s.on("C04") {
		s.c04w2Arrival(n, a)
		return
	}
	ann := s.announcedFor(a.Path)
	if s.on("C01", "C06", "C17") {
		prop := s.sc.Prop
		name, ok := ann[a.MD5]
		if !ok {
			var hs []string
			for h, nm := range ann {
				hs = append(hs, nm+":"+short(h))
			}
			sort.Strings(hs)
			if s.versionsInFlightTogether(src, strings.TrimPrefix(a.Path, src+"/")) || s.versionsInFlightTogetherAny(src, ann) {
				// its own oracle id: parts of two versions of the name were being
				// received at the same time (see spans.go, known finding)
				s.violate(prop, "delivered-mixture-of-versions-in-flight-together", "file %s arrived with md5 %s, the content of no announced version (announced: %v); parts of two versions of the name were being received at the same time", a.Path, short(a.MD5), hs)
			} else {
				s.violate(prop, "delivered-content-not-announced", "file %s arrived with md5 %s which the sender never announced for it (announced: %v)", a.Path, short(a.MD5), hs)
			}
		} else if s.versionWithMD5(name, a.MD5) == nil {
			s.violate(prop, "delivered-content-not-a-source-version", "file %s arrived with md5 %s, not the content of any version of source %s", a.Path, short(a.MD5), name)
		} else if s.logHas(n, src, name, a.MD5) == 0 {
			s.violate(prop, "delivered-without-log-record", "file %s (%s) arrived but the receive log has no record (%s,%s)", a.Path, name, name, short(a.MD5))
		}
	}
	if nm, ok := ann[a.MD5]; ok {
		s.checkOrderAtArrival(n, a, nm, a.MD5)
	}
	if s.on("C05", "C06", "C07") {
		cnt := 0
		for _, b := range s.ob.arrivals {
			if b.Path == a.Path && b.MD5 == a.MD5 {
				cnt++
			}
		}
		if cnt > 1 && !s.touchedVersion(ann[a.MD5], a.MD5) {
			if s.deliveryKnownOnlyFromLog(ann[a.MD5]) {
				// its own oracle id: the receiver had dropped the delivery from its
				// in-memory cache and was sent the file again without being asked
				// about it first (any question makes it read the log again)
				s.ob.logDupAllowed[src+"/"+ann[a.MD5]]++
				s.violate(s.sc.Prop, "redelivered-when-known-only-from-log", "file %s md5 %s arrived %d times; the receiver's in-memory record of the delivery had aged out and the file was sent again without a preceding question", a.Path, short(a.MD5), cnt)
			} else {
				s.violate(s.sc.Prop, "delivered-twice", "file %s md5 %s arrived %d times", a.Path, short(a.MD5), cnt)
			}
		}
	}
}

// touchedVersion: was the same content legitimately announced as a new
// version (mtime changed by the environment)?
func (s *Sim) touchedVersion(name, md5 string) bool {
	c := 0
	for _, v := range s.ob.versions[name] {
		if v.MD5 == md5 {
			c++
		}
	}
	return c > 1
}

// ---------------------------------------------------------------- C02

func (s *Sim) checkRelease(n *SendNode, what, name, md5 string) {
	if !s.on("C02", "C07", "C16") || md5 == "" {
		return
	}
	prop := s.sc.Prop
	ok, where := s.receiverHoldsValidated(name, md5)
	if !ok {
		// classify the history (known-findings are keyed on this)
		transmitted, earlier, scanned := false, false, false
		for _, t := range s.ob.tx {
			for i, p := range t.Parts {
				// "transmitted" = at least one part of this version was acknowledged
				if p.Name == name && p.Hash == md5 && t.Done && (t.Err == "" || (t.Err == "partial" && i < t.N)) {
					transmitted = true
				}
			}
		}
		for _, a := range s.ob.arrivals {
			if a.MD5 != md5 && s.arrivalIsOf(a, name) {
				earlier = true
			}
		}
		for _, sc := range s.ob.scans {
			if sc.Inc == n.inc {
				scanned = true
			}
		}
		oracle := "released-without-validated-copy"
		if !transmitted && earlier && !scanned && n.inc > 0 {
			// the restarted sender's start-up poll (by name) was answered for an
			// earlier delivered version of the name
			oracle = "released-on-startup-poll-for-earlier-version"
		}
		if transmitted && s.versionsInFlightTogether(s.sc.Send.Name, name) {
			// the receiver did validate this version - and a part of the version
			// it replaced, still streaming, altered the staged copy afterwards
			// (spans.go; the known finding on versions in flight together)
			oracle = "released-copy-altered-by-versions-in-flight-together"
		}
		s.violate(prop, oracle, "%s of source %s (content %s) but the receiving side holds no validated copy of that content (%s)", what, name, short(md5), where)
		return
	}
	// a positive poll answer for this name must have reached the sender
	pos := false
	for _, p := range s.ob.polls {
		if c, ok := p.Answer[name]; ok && (c == sts.ConfirmPassed || c == sts.ConfirmWaiting) {
			pos = true
		}
	}
	if !pos {
		s.violate(prop, "released-without-positive-answer", "%s of source %s without any passed/waiting poll answer for it", what, name)
	}
}

func (s *Sim) checkStatusAnswer(d *gkDeco, name string, code int) {
	if s.on("C05") && s.sc.Mode == "w2" && (s.sc.Extra["c05age"] != nil || s.sc.Extra["c05restart"] != nil) && code == sts.ConfirmNone {
		// single-version names: once delivered, the file is known - from memory
		// or, after ageing, from the log, which a question makes the receiver read
		for _, a := range s.ob.arrivals {
			if s.arrivalIsOf(a, name) {
				s.violate("C05", "delivered-file-answered-unknown", "asked about %s, which was delivered (and logged) before, the receiver answers that it does not know the file", name)
				break
			}
		}
	}
	if !s.on("C02", "C01", "C06") {
		return
	}
	if code != sts.ConfirmPassed && code != sts.ConfirmWaiting {
		return
	}
	// positive answer: validated content must be durably held or delivered+logged
	n := d.n
	p := filepath.Join(n.stageDir(), d.source, name)
	if _, err := os.Stat(p + ".wait"); err == nil {
		// .wait must hold content whose hash the sender announced for this
		// name (the companion is not a reliable witness: late parts of an
		// older version may have rewritten it)
		if m, _, e := fileMD5(p + ".wait"); e == nil {
			okh := false
			for _, t := range s.ob.tx {
				for _, pd := range t.Parts {
					if pd.Name == name && pd.Hash == m {
						okh = true
					}
				}
			}
			for _, pd := range s.extraAnnounced {
				if pd.Name == name && pd.Hash == m {
					okh = true
				}
			}
			if !okh {
				s.violate(s.sc.Prop, "positive-answer-unvalidated", "status %d for %s but the staged .wait content %s matches no hash announced for it", code, name, short(m))
			}
		}
		return
	}
	if s.logHas(n, d.source, name, "") > 0 {
		return
	}
	for _, a := range s.ob.arrivals {
		if s.arrivalIsOf(a, name) {
			return
		}
	}
	s.violate(s.sc.Prop, "positive-answer-without-copy", "status %d for %s but neither a validated staged copy nor a delivery/log record exists", code, name)
}

// ---------------------------------------------------------------- final

func (s *Sim) finalOracles() {
	// (C17 speaks of files being sent and delivered; whether the sender also
	// gets to record the confirmation is C03's and C02's business)
	if s.on("C17") && !strings.HasPrefix(s.unsettledWhy, "not arrived") {
	} else if s.on("C03", "C06", "C07", "C17") && !s.settledFinal && !s.inconclusive && s.ob.stopStep < 0 {
		s.violate(s.sc.Prop, "not-delivered-within-bound", "after %s without faults the system is not settled: %s", s.sc.Settle, s.unsettledWhy)
	}
	if s.on("C05", "C06", "C07") {
		s.checkLogCounts()
	}
	if s.on("C16") && s.ob.stopStep >= 0 && len(s.sendAll) > 0 {
		s.checkStop(s.sendAll[0])
	}
	for _, f := range s.finalHooks {
		f()
	}
}

type cacheOnDisk struct {
	Files map[string]struct {
		Hash string `json:"hash"`
		Done bool   `json:"done"`
	} `json:"files"`
}

func readCacheOnDisk(n *SendNode) *cacheOnDisk {
	m, _ := filepath.Glob(filepath.Join(n.root, "cache", "*.json"))
	c := &cacheOnDisk{}
	if len(m) == 0 {
		return c
	}
	b, err := os.ReadFile(m[0])
	if err != nil {
		return c
	}
	jsonUnmarshal(b, c)
	return c
}

// checkStop: C16 - every stop terminates; a graceful stop finishes the work.
func (s *Sim) checkStop(n *SendNode) {
	graceful := s.sc.StopGraceful || s.sc.OneShot
	if !n.exited.Load() {
		if !s.inconclusive {
			kind := "immediate"
			if graceful {
				kind = "graceful"
			}
			s.violate("C16", "stop-did-not-terminate", "%s stop requested at step %d; the sender has not exited %s of fault-free simulated time later", kind, s.ob.stopStep, s.sc.Settle)
			if *flagSUTLog {
				buf := make([]byte, 1<<20)
				buf = buf[:runtime.Stack(buf, true)]
				for _, g := range strings.Split(string(buf), "\n\n") {
					if strings.Contains(g, "sts/client.") {
						fmt.Fprintln(os.Stderr, g)
						fmt.Fprintln(os.Stderr)
					}
				}
			}
		}
		return
	}
	if !graceful {
		return
	}
	disk := readCacheOnDisk(n)
	// nothing that was confirmed is left unrecorded in the queue cache
	names := map[string]bool{}
	for _, p := range s.ob.polls {
		if p.Inc != n.inc || !p.Done {
			continue
		}
		for name, code := range p.Answer {
			if code == sts.ConfirmPassed || code == sts.ConfirmWaiting {
				names[name] = true
			}
		}
	}
	var list []string
	for k := range names {
		list = append(list, k)
	}
	sort.Strings(list)
	for _, name := range list {
		if len(s.ob.versions[name]) > 1 {
			continue // changed by the environment meanwhile
		}
		e, ok := disk.Files[name]
		if ok && !e.Done {
			s.violate("C16", "confirmed-but-not-recorded", "%s was confirmed by the receiver before the graceful stop completed but the queue cache on disk does not show it done", name)
		}
	}
	// in the fault-free population a graceful stop delivers everything the scans
	// found (a polling give-up - the configured number of "not found" answers
	// while the receiver is still validating - counts as a failure here too:
	// sts does not start retries once a stop is under way)
	if s.sc.FaultFree && s.nFaults == 0 && s.noRequestFailed() {
		found := map[string]bool{}
		for _, sc := range s.ob.scans {
			if sc.Inc == n.inc {
				for _, nm := range sc.Names {
					found[nm] = true
				}
			}
		}
		var fl []string
		for k := range found {
			fl = append(fl, k)
		}
		sort.Strings(fl)
		for _, name := range fl {
			vs := s.ob.versions[name]
			if len(vs) != 1 {
				continue
			}
			if !s.arrived(name, vs[0]) {
				s.violate("C16", "graceful-stop-left-file-undelivered", "fault-free run: the sender exited after a graceful stop although %s, found by a completed scan, was never delivered (%s)", name, s.whereIs(name))
			} else if e, ok := disk.Files[name]; ok && !e.Done {
				s.violate("C16", "graceful-stop-left-file-unconfirmed", "fault-free run: the sender exited after a graceful stop but %s is not recorded done", name)
			}
		}
	}
}

func (s *Sim) checkLogCounts() {
	if len(s.recvAll) == 0 {
		return
	}
	n := s.recvAll[len(s.recvAll)-1]
	src := s.sc.Send.Name
	cnt := map[string]int{}
	for _, l := range readRecvLog(n, src) {
		cnt[l.Name+"|"+l.Hash]++
	}
	keys := make([]string, 0, len(cnt))
	for k := range cnt {
		keys = append(keys, k)
	}
	sort.Strings(keys)
	for _, k := range keys {
		parts := strings.SplitN(k, "|", 2)
		allowed := 1 + s.ob.logDupAllowed[src+"/"+parts[0]]
		if s.touchedVersion(parts[0], parts[1]) {
			allowed += len(s.ob.versions[parts[0]])
		}
		if cnt[k] > allowed {
			s.violate(s.sc.Prop, "logged-more-than-once", "receive log has %d records for (%s,%s), at most %d permitted", cnt[k], parts[0], short(parts[1]), allowed)
		}
	}
}

// ---------------------------------------------------------------- hooks filled in by later oracles

func (s *Sim) checkScanListing(d *gkDeco, list []*sts.Partial) {
	if s.hookScanListing != nil {
		s.hookScanListing(d, list)
	}
}
func (s *Sim) checkReceived(d *gkDeco, r *recvPartObs) {
	if s.hookReceived != nil {
		s.hookReceived(d, r)
	}
}
func (s *Sim) checkReceivedQuery(d *gkDeco, descs []partDesc, n int) {
	if s.hookReceivedQuery != nil {
		s.hookReceivedQuery(d, descs, n)
	}
}
func (s *Sim) checkScan(n *SendNode, sc *scanObs) {
	if s.hookScan != nil {
		s.hookScan(n, sc)
	}
}
func (s *Sim) checkPersisted(n *SendNode) {}
func (s *Sim) checkPush(n *SendNode, files []sts.Hashed) {
	if s.hookPush != nil {
		s.hookPush(n, files)
	}
}
func (s *Sim) checkPop(n *SendNode, p *popObs) {
	if s.hookPop != nil {
		s.hookPop(n, p)
	}
}
func (s *Sim) checkSentLog(n *SendNode, sl *sentLogObs) {
	if s.hookSentLog != nil {
		s.hookSentLog(n, sl)
	}
}
func (s *Sim) checkTransmitBegin(n *SendNode, t *txObs) {
	if s.hookTxBegin != nil {
		s.hookTxBegin(n, t)
	}
}
func (s *Sim) checkTransmitEnd(n *SendNode, t *txObs) {
	if s.hookTxEnd != nil {
		s.hookTxEnd(n, t)
	}
}
func (s *Sim) checkPollBegin(n *SendNode, p *pollObs) {
	if s.hookPollBegin != nil {
		s.hookPollBegin(n, p)
	}
}

func readCmp(path string) *sts.Partial {
	b, err := os.ReadFile(path)
	if err != nil {
		return nil
	}
	var p sts.Partial
	if jsonUnmarshal(b, &p) != nil {
		return nil
	}
	return &p
}

var _ = fmt.Sprint
