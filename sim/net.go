package main

// Simulated network: every connection is two net.Pipes back to back
// (client <-> A, B <-> server) with a pump per direction that forwards only
// the bytes the scheduler grants.

import (
	"bytes"
	"context"
	"errors"
	"fmt"
	"net"
	"strings"
	"sync"
)

type simAddr string

func (a simAddr) Network() string { return "sim" }
func (a simAddr) String() string  { return string(a) }

// simListener is handed to the SUT's HTTP server through hook H2.
type simListener struct {
	addr   string
	ch     chan net.Conn
	closed chan struct{}
	once   sync.Once
	node   *RecvNode
}

func (l *simListener) Accept() (net.Conn, error) {
	select {
	case c := <-l.ch:
		return c, nil
	case <-l.closed:
		return nil, net.ErrClosed
	}
}
func (l *simListener) Close() error   { l.once.Do(func() { close(l.closed) }); return nil }
func (l *simListener) Addr() net.Addr { return simAddr(l.addr) }

type connFate struct {
	Kind string `json:"kind"` // none, refuse, cut_req_at, cut_after_recorded, drop_resp, flip_req, stall, cut_resp_at
	Arg  int    `json:"arg"`
}

// FaultSpec attaches a fate to the n-th connection of a request kind.
type FaultSpec struct {
	Req  string   `json:"req"` // data, data-recovery, validate, partials, any
	Nth  int      `json:"nth"` // 1-based ordinal among connections of that kind
	Fate connFate `json:"fate"`
}

type simDir struct {
	name      string
	in        net.Conn // we read what the writer side wrote
	out       net.Conn // we write toward the reader side
	mu        sync.Mutex
	pending   []byte
	srcClosed bool
	total     int64 // bytes forwarded so far
	seen      int64 // bytes read from writer so far
	room      chan struct{}
	window    int
	fwd       chan []byte
	closeOut  bool
}

type simConn struct {
	id     int
	kind   string // request kind once known
	fate   connFate
	fine   bool
	a, b   net.Conn // harness-side pipe ends (a: toward client, b: toward server)
	c2s    *simDir
	s2c    *simDir
	dead   bool
	node   *RecvNode
	peer   string // who dialled: "sender" or "peer"
	recorded int   // stage.receive.recorded events attributed to this conn
	respSeen bool
	bodyStart int64
}

type simNet struct {
	s         *Sim
	mu        sync.Mutex
	listeners map[string]*simListener
	conns     []*simConn
	nextID    int
	kindCount map[string]int
	dialTag   string
}

func newSimNet(s *Sim) *simNet {
	return &simNet{s: s, listeners: map[string]*simListener{}, kindCount: map[string]int{}}
}

// listen is installed as stshttp.VerifListen.
func (n *simNet) listen(addr string) net.Listener {
	n.mu.Lock()
	defer n.mu.Unlock()
	l := &simListener{addr: addr, ch: make(chan net.Conn, 64), closed: make(chan struct{}), node: n.s.recv}
	n.listeners[addr] = l
	if l.node != nil {
		l.node.listeners = append(l.node.listeners, l)
	}
	return l
}

func (n *simNet) unlisten(l *simListener) {
	n.mu.Lock()
	if n.listeners[l.addr] == l {
		delete(n.listeners, l.addr)
	}
	n.mu.Unlock()
}

// dial is installed as the DialContext of http.DefaultTransport.
func (n *simNet) dial(ctx context.Context, network, addr string) (net.Conn, error) {
	n.mu.Lock()
	l := n.listeners[addr]
	if l == nil {
		if i := strings.LastIndexByte(addr, ':'); i >= 0 {
			l = n.listeners[addr[i:]] // servers listening on ":port"
		}
	}
	if l == nil || (l.node != nil && l.node.isDead()) {
		n.mu.Unlock()
		n.s.stat("net:refused")
		return nil, &net.OpError{Op: "dial", Net: "sim", Addr: simAddr(addr), Err: errors.New("connection refused")}
	}
	n.nextID++
	id := n.nextID
	cEnd, a := net.Pipe()
	b, sEnd := net.Pipe()
	c := &simConn{id: id, a: a, b: b, node: l.node, peer: n.dialTag, bodyStart: -1}
	win := n.s.sc.NetWindow
	c.c2s = &simDir{name: "c2s", in: a, out: b, room: make(chan struct{}, 1), window: win, fwd: make(chan []byte, 4096)}
	c.s2c = &simDir{name: "s2c", in: b, out: a, room: make(chan struct{}, 1), window: win, fwd: make(chan []byte, 4096)}
	n.conns = append(n.conns, c)
	n.mu.Unlock()
	go n.pumpIn(c, c.c2s)
	go n.pumpIn(c, c.s2c)
	go n.pumpOut(c, c.c2s)
	go n.pumpOut(c, c.s2c)
	l.ch <- &addrConn{Conn: sEnd, remote: fmt.Sprintf("10.0.0.%d:%d", 1+id%200, 1000+id)}
	n.s.stat("net:conn")
	return cEnd, nil
}

type addrConn struct {
	net.Conn
	remote string
}

func (c *addrConn) RemoteAddr() net.Addr { return simAddr(c.remote) }

func (n *simNet) pumpIn(c *simConn, d *simDir) {
	buf := make([]byte, 32*1024)
	for {
		for {
			d.mu.Lock()
			full := d.window > 0 && len(d.pending) >= d.window
			d.mu.Unlock()
			if !full {
				break
			}
			<-d.room
			if c.dead {
				return // (not left behind holding the connection when the run is over)
			}
		}
		k, err := d.in.Read(buf)
		d.mu.Lock()
		if k > 0 {
			d.pending = append(d.pending, buf[:k]...)
			d.seen += int64(k)
		}
		if err != nil {
			d.srcClosed = true
		}
		d.mu.Unlock()
		if !c.dead {
			// (what a crashed process still writes into a connection that was cut
			// with it must not wake the scheduler out of a time step)
			n.s.signalWake()
		}
		if err != nil {
			return
		}
	}
}

func (n *simNet) pumpOut(c *simConn, d *simDir) {
	for b := range d.fwd {
		if b == nil {
			d.out.Close()
			return
		}
		if _, err := d.out.Write(b); err != nil {
			// reader side is gone; keep draining
			continue
		}
	}
}

func (c *simConn) kill() {
	c.dead = true
	c.a.Close()
	c.b.Close()
	for _, d := range []*simDir{c.c2s, c.s2c} {
		select {
		case d.fwd <- nil:
		default:
		}
		select {
		case d.room <- struct{}{}:
		default:
		}
	}
}

func (n *simNet) cut(c *simConn, why string) {
	if c.dead {
		return
	}
	c.kill()
	n.s.stat("fault:" + why)
}

// classify looks at the first request line once it is complete.
func (n *simNet) classify(c *simConn) {
	if c.kind != "" {
		return
	}
	c.c2s.mu.Lock()
	p := c.c2s.pending
	i := bytes.IndexByte(p, '\n')
	var line string
	if i >= 0 {
		line = string(p[:i])
	}
	c.c2s.mu.Unlock()
	if i < 0 {
		return
	}
	f := strings.Fields(line)
	kind := "other"
	if len(f) >= 2 {
		u := f[1]
		if j := strings.IndexByte(u, '?'); j >= 0 {
			u = u[:j]
		}
		switch {
		case strings.HasSuffix(u, "/data"):
			kind = "data"
		case strings.HasSuffix(u, "/data-recovery"):
			kind = "data-recovery"
		case strings.HasSuffix(u, "/validate"):
			kind = "validate"
		case strings.HasSuffix(u, "/partials"):
			kind = "partials"
		case strings.Contains(u, "/static/"):
			kind = "static"
		case strings.HasSuffix(u, "/clean"), strings.HasSuffix(u, "/prune"), strings.HasSuffix(u, "/restart"):
			kind = "internal"
		}
	}
	c.kind = kind
	if kind == "data-recovery" {
		c.c2s.mu.Lock()
		c.c2s.window = 0
		c.c2s.mu.Unlock()
		select {
		case c.c2s.room <- struct{}{}:
		default:
		}
	}
	n.kindCount[kind]++
	n.kindCount["any"]++
	if c.peer == "sender" {
		for _, f := range n.s.sc.Faults {
			if (f.Req == kind && f.Nth == n.kindCount[kind]) || (f.Req == "any" && f.Nth == n.kindCount["any"]) {
				c.fate = f.Fate
				if f.Fate.Kind == "flip_req" && kind != "data" {
					// only file data is protected by a checksum; a flipped byte in
					// the JSON of a poll or a listing request is undetectable by
					// design (names carry no checksum): the request is cut instead
					c.fate = connFate{Kind: "cut_req_at", Arg: f.Fate.Arg}
				}
			}
		}
	}
	if n.s.sc.NetFinePct > 0 && n.s.tape.N(100) < n.s.sc.NetFinePct {
		c.fine = true
	}
	n.s.stat("req:" + kind)
}

var fineSizes = []int{1, 7, 64, 509, 4096}

func (n *simNet) events() []event {
	var evs []event
	n.mu.Lock()
	conns := append([]*simConn(nil), n.conns...)
	n.mu.Unlock()
	var live []*simConn
	for _, c := range conns {
		if c.dead {
			continue
		}
		n.classify(c)
		for _, d := range []*simDir{c.c2s, c.s2c} {
			c, d := c, d
			d.mu.Lock()
			np := len(d.pending)
			closed := d.srcClosed
			d.mu.Unlock()
			if d.closeOut || len(d.fwd) > cap(d.fwd)-4 {
				continue
			}
			if np == 0 && !closed {
				continue
			}
			if d == c.c2s && c.kind == "" && !closed {
				continue // request line not complete yet
			}
			if d == c.c2s && c.kind == "data-recovery" && !closed {
				// payload.NewDecoder reads this request's body from a second
				// goroutine until EOF while net/http's body.Close holds the
				// body mutex across a conn read: a handler that finishes before
				// the body's end arrived leaves a goroutine blocked on that
				// mutex (not durably), which synctest cannot see through. These
				// (tiny) requests are therefore delivered whole or not at all.
				d.mu.Lock()
				whole := requestComplete(d.pending)
				d.mu.Unlock()
				if !whole {
					continue
				}
			}
			if d == c.c2s && c.fate.Kind == "stall" {
				if !c.respSeen {
					c.respSeen = true
					n.s.stat("fault:stall")
					n.s.noteFault()
				}
				if !closed {
					continue
				}
			}
			lab := fmt.Sprintf("net %03d %s %s", c.id, c.kind, d.name)
			evs = append(evs, event{label: lab, weight: 10, do: func() { n.deliver(c, d) }})
		}
		if !c.c2s.closeOut || !c.s2c.closeOut {
			live = append(live, c)
		}
	}
	n.mu.Lock()
	n.conns = live
	n.mu.Unlock()
	return evs
}

func (n *simNet) deliver(c *simConn, d *simDir) {
	d.mu.Lock()
	np := len(d.pending)
	closed := d.srcClosed
	d.mu.Unlock()
	n.s.curConn = c
	if np == 0 && closed {
		// propagate the close; whatever travels the other way is lost
		d.closeOut = true
		d.fwd <- nil
		other := c.s2c
		if d == c.s2c {
			other = c.c2s
		}
		if !other.closeOut {
			other.closeOut = true
			other.fwd <- nil
		}
		return
	}
	k := np
	if c.fine && !(d == c.c2s && c.kind == "data-recovery") {
		sz := fineSizes[n.s.tape.N(len(fineSizes)+1)%len(fineSizes)]
		if n.s.tape.N(3) == 0 {
			sz = np
		}
		if sz < k {
			k = sz
		}
	}
	// fates
	if d == c.c2s {
		switch c.fate.Kind {
		case "cut_req_at":
			lim := int64(c.fate.Arg) - d.total
			if lim <= 0 {
				n.cut(c, "cut_req_at")
				n.s.noteFault()
				return
			}
			if int64(k) > lim {
				k = int(lim)
			}
		case "flip_req":
			if c.bodyStart < 0 {
				d.mu.Lock()
				if i := bytes.Index(d.pending, []byte("\r\n\r\n")); i >= 0 {
					// flips hit file data, not the (unchecksummed) part
					// descriptors: skip the JSON header of the payload
					c.bodyStart = dataRegionStart(d.pending, i+4, d.total)
				}
				d.mu.Unlock()
			}
			if c.bodyStart < 0 {
				break
			}
			off := c.bodyStart + int64(c.fate.Arg) - d.total
			if off >= 0 && off < int64(k) {
				d.mu.Lock()
				d.pending[off] ^= 0x20
				d.mu.Unlock()
				c.fate.Kind = "none"
				n.s.stat("fault:flip_req")
				n.s.noteFault()
			}
		}
	} else {
		switch c.fate.Kind {
		case "drop_resp":
			n.cut(c, "drop_resp")
			n.s.noteFault()
			return
		case "cut_resp_at":
			lim := int64(c.fate.Arg) - d.total
			if lim <= 0 {
				n.cut(c, "cut_resp_at")
				n.s.noteFault()
				return
			}
			if int64(k) > lim {
				k = int(lim)
			}
		}
	}
	d.mu.Lock()
	b := append([]byte(nil), d.pending[:k]...)
	d.pending = d.pending[k:]
	d.total += int64(k)
	d.mu.Unlock()
	select {
	case d.room <- struct{}{}:
	default:
	}
	d.fwd <- b
	n.s.statN("net:bytes", k)
}

// recordedOnCurrent is called from the H1 hook when the receiver recorded a part.
func (n *simNet) recordedOnCurrent() {
	c := n.s.curConn
	if c == nil || c.dead {
		return
	}
	c.recorded++
	if c.fate.Kind == "cut_after_recorded" && c.recorded == c.fate.Arg {
		n.cut(c, "cut_after_recorded")
		n.s.noteFault()
	}
}

func (n *simNet) liveConns() int {
	n.mu.Lock()
	defer n.mu.Unlock()
	c := 0
	for _, x := range n.conns {
		if !x.dead && !(x.c2s.closeOut && x.s2c.closeOut) {
			c++
		}
	}
	return c
}

func (n *simNet) cutAllOf(node *RecvNode) {
	n.mu.Lock()
	conns := append([]*simConn(nil), n.conns...)
	n.mu.Unlock()
	for _, c := range conns {
		if c.node == node && !c.dead {
			c.kill()
		}
	}
}

func (n *simNet) cutAllFrom(peer string) {
	n.mu.Lock()
	conns := append([]*simConn(nil), n.conns...)
	n.mu.Unlock()
	for _, c := range conns {
		if c.peer == peer && !c.dead {
			c.kill()
		}
	}
}
