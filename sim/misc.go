package main

import (
	"encoding/json"
	"fmt"
	"os"
	"path/filepath"
	"strings"
	"testing"
	"time"

	"github.com/arm-doe/sts"
)

func jsonUnmarshal(b []byte, v any) error { return json.Unmarshal(b, v) }

// operator issues a command on the receiver's internal port (real routeInternal).
func (s *Sim) operator(cmd, mode string) {
	if s.operatorFn != nil {
		s.operatorFn(cmd, mode)
	}
}

// minimise shrinks scenario and tape while the same oracle keeps firing.
func minimise(t *testing.T, sc *Scenario, tape []uint32, v Violation) (*Scenario, []uint32, int) {
	want := sig(v)
	budget := 60
	deadline := time.Now().Add(*flagMinFor) // real time: heavy scenarios are reported less minimised
	fires := func(c *Scenario, fixed []uint32, zeroFrom int) (*RunResult, bool) {
		if time.Now().After(deadline) {
			budget = 0
			return &RunResult{}, false
		}
		r := execRun(t, c, fixed, zeroFrom, false)
		for _, x := range r.Viol {
			if sig(x) == want {
				return r, true
			}
		}
		return r, false
	}
	clone := func(c *Scenario) *Scenario {
		b, _ := json.Marshal(c)
		var n Scenario
		json.Unmarshal(b, &n)
		return &n
	}
	best := clone(sc)
	try := func(mut func(c *Scenario) bool) {
		for budget > 0 {
			c := clone(best)
			if !mut(c) {
				return
			}
			budget--
			if _, ok := fires(c, nil, -1); ok {
				best = c
				continue
			}
			return
		}
	}
	// drop faults, env actions, crashes, files one at a time (from the end)
	for i := len(best.Faults) - 1; i >= 0 && budget > 0; i-- {
		i := i
		try(func(c *Scenario) bool {
			if i >= len(c.Faults) {
				return false
			}
			c.Faults = append(c.Faults[:i], c.Faults[i+1:]...)
			return true
		})
	}
	for i := len(best.Env) - 1; i >= 0 && budget > 0; i-- {
		i := i
		try(func(c *Scenario) bool {
			if i >= len(c.Env) {
				return false
			}
			c.Env = append(c.Env[:i], c.Env[i+1:]...)
			return true
		})
	}
	for i := len(best.Files) - 1; i >= 0 && budget > 0; i-- {
		i := i
		try(func(c *Scenario) bool {
			if i >= len(c.Files) || len(c.Files) <= 1 {
				return false
			}
			c.Files = append(c.Files[:i], c.Files[i+1:]...)
			return true
		})
	}
	// operation lists of the scripted worlds (W2 peer, W4 queue and log): what
	// comes after the violation is irrelevant, so first find a short prefix
	// that still fails, then drop single operations from the end backwards
	type opList struct {
		length func(c *Scenario) int
		cut    func(c *Scenario, n int)
		drop   func(c *Scenario, i int)
	}
	lists := []opList{
		{func(c *Scenario) int { return len(c.Peer) }, func(c *Scenario, n int) { c.Peer = c.Peer[:n] },
			func(c *Scenario, i int) { c.Peer = append(c.Peer[:i:i], c.Peer[i+1:]...) }},
		{func(c *Scenario) int { return len(c.QueueOps) }, func(c *Scenario, n int) { c.QueueOps = c.QueueOps[:n] },
			func(c *Scenario, i int) { c.QueueOps = append(c.QueueOps[:i:i], c.QueueOps[i+1:]...) }},
		{func(c *Scenario) int { return len(c.LogOps) }, func(c *Scenario, n int) { c.LogOps = c.LogOps[:n] },
			func(c *Scenario, i int) { c.LogOps = append(c.LogOps[:i:i], c.LogOps[i+1:]...) }},
	}
	for _, l := range lists {
		if l.length(best) < 2 {
			continue
		}
		budget += 40 // these runs are short
		lo, hi := 1, l.length(best) // shortest failing prefix is in (lo-1, hi]
		for lo < hi && budget > 0 {
			mid := (lo + hi) / 2
			c := clone(best)
			l.cut(c, mid)
			budget--
			if _, ok := fires(c, nil, -1); ok {
				hi = mid
			} else {
				lo = mid + 1
			}
		}
		if hi < l.length(best) {
			c := clone(best)
			l.cut(c, hi)
			budget--
			if _, ok := fires(c, nil, -1); ok {
				best = c
			}
		}
		for i := l.length(best) - 2; i >= 0 && budget > 0; i-- {
			c := clone(best)
			l.drop(c, i)
			budget--
			if _, ok := fires(c, nil, -1); ok {
				best = c
			}
		}
	}
	once := func(mut func(c *Scenario) bool) {
		if budget <= 0 {
			return
		}
		c := clone(best)
		if !mut(c) {
			return
		}
		budget--
		if _, ok := fires(c, nil, -1); ok {
			best = c
		}
	}
	once(func(c *Scenario) bool { ch := c.Send.Threads != 1; c.Send.Threads = 1; return ch })
	once(func(c *Scenario) bool { ch := c.Send.Compression != 0; c.Send.Compression = 0; return ch })
	once(func(c *Scenario) bool { ch := c.NetFinePct != 0; c.NetFinePct = 0; return ch })
	once(func(c *Scenario) bool { ch := len(c.Hot) != 0; c.Hot = nil; return ch })
	once(func(c *Scenario) bool { ch := c.NetWindow != 0; c.NetWindow = 0; return ch })
	once(func(c *Scenario) bool { ch := len(c.Send.Rename) != 0; c.Send.Rename = nil; return ch })
	once(func(c *Scenario) bool { ch := len(c.RecvErrAt) != 0; c.RecvErrAt = nil; return ch })
	once(func(c *Scenario) bool { ch := c.SendCrashAt != 0; c.SendCrashAt = 0; return ch })
	// tape: prefer the boring schedule (first enabled event) from some point on
	r, ok := fires(best, nil, -1)
	if !ok {
		if time.Now().After(deadline) {
			return best, nil, -1 // out of time: every accepted candidate had fired
		}
		return sc, tape, -1
	}
	zero := -1
	n := len(r.Tape)
	for _, z := range []int{0, n / 8, n / 4, n / 2, 3 * n / 4} {
		if budget <= 0 {
			break
		}
		budget--
		if _, ok := fires(best, nil, z); ok {
			zero = z
			break
		}
	}
	return best, nil, zero
}

// tearTail turns "crash right after this write" into "crash inside this
// write": the last receive-log line, or the companion's temporary file, is
// cut short in the crash image. Only applied where nothing after the write
// has happened yet.
func (s *Sim) tearTail(newRoot, why string) {
	var newest string
	var newestT time.Time
	pick := func(dir, suffix string) {
		filepath.Walk(filepath.Join(newRoot, dir), func(p string, info os.FileInfo, err error) error {
			if err != nil || info.IsDir() || !strings.HasSuffix(p, suffix) {
				return nil
			}
			if newest == "" || info.ModTime().After(newestT) || (info.ModTime().Equal(newestT) && p > newest) {
				newest, newestT = p, info.ModTime()
			}
			return nil
		})
	}
	switch {
	case strings.HasPrefix(why, "fileutil.writejson.tmp"):
		pick("stage", ".lck")
	default:
		return
	}
	if newest == "" {
		return
	}
	info, err := os.Stat(newest)
	if err != nil || info.Size() < 4 {
		return
	}
	cut := info.Size() - 1 - int64(info.Size()%7)
	if strings.HasSuffix(newest, ".lck") {
		cut = info.Size() / 2
	}
	os.Truncate(newest, cut)
	os.Chtimes(newest, info.ModTime(), info.ModTime())
	s.stat("fault:torn-tail")
}

func fmtParts(p *sts.Partial) string {
	var b strings.Builder
	for _, r := range p.Parts {
		fmt.Fprintf(&b, "[%d:%d)", r.Beg, r.End)
	}
	return b.String()
}
