package main

import (
	"bytes"
	"strconv"
	"strings"
)

// requestComplete: does pending hold one whole HTTP request (headers + body)?
func requestComplete(pending []byte) bool {
	i := bytes.Index(pending, []byte("\r\n\r\n"))
	if i < 0 {
		return false
	}
	head := strings.ToLower(string(pending[:i]))
	for _, line := range strings.Split(head, "\r\n") {
		if strings.HasPrefix(line, "content-length:") {
			n, err := strconv.Atoi(strings.TrimSpace(line[len("content-length:"):]))
			return err == nil && len(pending) >= i+4+n
		}
	}
	if strings.Contains(head, "transfer-encoding: chunked") {
		return bytes.HasSuffix(pending, []byte("0\r\n\r\n"))
	}
	return true // no body
}
