package main

import (
	"reflect"
	"sync"
	"unsafe"

	"github.com/arm-doe/sts"
	"github.com/arm-doe/sts/stage"
)

// Every stage.Stage starts 25 handler goroutines that range over two channels
// nothing in sts ever closes (the real program ends with its process). In a
// batch of thousands of simulations in one process they would stay behind,
// stacks and all, and the worker grows by megabytes a second. When a
// simulation is over - all verdicts given, every node dead - its stages'
// channels are closed from inside the bubble, so the handlers end. Whatever is
// still buffered in them is handed to a handler first, which stops at its first
// scheduling point like every other goroutine of a dead node.
var (
	stagesMu sync.Mutex
	stagesOf = map[*Sim][]*stage.Stage{}
)

func noteGateKeeper(s *Sim, gk sts.GateKeeper) {
	st, ok := gk.(*stage.Stage)
	if !ok {
		return
	}
	stagesMu.Lock()
	defer stagesMu.Unlock()
	for _, have := range stagesOf[s] {
		if have == st {
			return
		}
	}
	stagesOf[s] = append(stagesOf[s], st)
}

func (s *Sim) retireStages() {
	stagesMu.Lock()
	list := stagesOf[s]
	delete(stagesOf, s)
	stagesMu.Unlock()
	for _, st := range list {
		v := reflect.ValueOf(st).Elem()
		for _, name := range []string{"validateCh", "finalizeCh"} {
			f := v.FieldByName(name)
			if !f.IsValid() || f.Kind() != reflect.Chan {
				continue
			}
			ch := reflect.NewAt(f.Type(), unsafe.Pointer(f.UnsafeAddr())).Elem()
			if ch.IsNil() || ch.Len() >= ch.Cap() {
				continue // a full channel may have a sender waiting on it: left as it is
			}
			ch.Close()
		}
	}
}
