package main

// C15, "premature": start-up recovery of a source is over only when the files
// it found completely received have been validated again. The receiver says
// "Stage recovery complete" when Recover() returns; this keeps its own list of
// what recovery has to validate - taken from the stage directory before the
// receiver starts - so that a Recover() that returns early is noticed.

import (
	"os"
	"path/filepath"
	"strings"
	"sync"
)

type recoverPending struct {
	mu    sync.Mutex
	paths map[string]bool // stage path without extension -> not validated yet
}

// snapshotRecoverPending lists the completely received, not yet validated
// files in the stage directory of a receiver that is about to start.
func snapshotRecoverPending(stageDir string) *recoverPending {
	rp := &recoverPending{paths: map[string]bool{}}
	filepath.Walk(stageDir, func(p string, info os.FileInfo, err error) error {
		if err != nil || info.IsDir() {
			return nil
		}
		// as the statement of start-up recovery goes: a readable companion
		// decides; .wait (validated before) is put away, .full is validated,
		// a .part whose record covers the file is validated
		if !strings.HasSuffix(p, ".cmp") {
			return nil
		}
		base := strings.TrimSuffix(p, ".cmp")
		cmp := readCmp(p)
		if cmp == nil {
			return nil
		}
		exists := func(ext string) bool { _, err := os.Lstat(base + ext); return err == nil }
		switch {
		case exists(".wait"):
		case exists(".full"):
			rp.paths[base] = true
		case exists(".part"):
			var rec []rng
			for _, r := range cmp.Parts {
				rec = append(rec, rng{r.Beg, r.End})
			}
			if covered(rec, 0, cmp.Size) {
				rp.paths[base] = true
			}
		}
		return nil
	})
	return rp
}

func (rp *recoverPending) done(path string) {
	if rp == nil {
		return
	}
	rp.mu.Lock()
	delete(rp.paths, path)
	rp.mu.Unlock()
}

// pendingFor returns one not yet validated path below stage/<source>/, or "".
func (rp *recoverPending) pendingFor(stageDir, source string) string {
	if rp == nil {
		return ""
	}
	rp.mu.Lock()
	defer rp.mu.Unlock()
	prefix := filepath.Join(stageDir, source) + string(filepath.Separator)
	best := ""
	for p := range rp.paths {
		if strings.HasPrefix(p, prefix) && (best == "" || p < best) {
			best = p
		}
	}
	return best
}
