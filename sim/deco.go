package main

// Transparent decorators around the interfaces of client.Conf (sender) and
// sts.GateKeeper (receiver): gates, crash boundaries and observations.

import (
	"crypto/md5"
	"encoding/hex"
	"fmt"
	"hash"
	"io"
	"runtime"
	"sort"
	"strings"
	"sync/atomic"
	"time"

	"github.com/arm-doe/sts"
	"github.com/arm-doe/sts/fileutil"
)

// ------------------------------------------------------------ H1 dispatch

var gateLabels = map[string]bool{
	"stage.recover.begin": true, "stage.process.begin": true, "stage.finalize.item": true, "stage.clean.begin": true,
	// inserted by tools/maporder at the top of stage.finalizeQueue (not a line of /repo)
	"stage.finalize.queue": true, "stage.process.queue": true,
}

// optional gates: park only when hot in this run
var optGateLabels = map[string]bool{
	"stage.prepare": true, "stage.receive.begin": true, "stage.receive.written": true,
	"stage.received": true, "stage.status": true, "stage.scan": true,
	"stage.recover.cache0": true,
	// inserted by tools/maporder in front of every acquisition of a per-file
	// lock in package stage (not a line of /repo): see DESIGN 12.2
	"stage.pathlock": true,
}

func (s *Sim) installHook() {
	fileutil.VerifHook = s.hook
}

func (s *Sim) nodeForPath(path string) *RecvNode {
	for i := len(s.recvAll) - 1; i >= 0; i-- {
		n := s.recvAll[i]
		if strings.HasPrefix(path, n.root+"/") || path == n.root {
			return n
		}
	}
	return nil
}

func (s *Sim) hook(label, path string) {
	if strings.HasPrefix(label, "fileutil.writejson") || strings.HasPrefix(label, "fileutil.move") {
		// shared by sender (queue cache) and receiver (companion, final move)
		if n := s.nodeForPath(path); n != nil {
			s.recvPoint(n, label, path)
			return
		}
		for i := len(s.sendAll) - 1; i >= 0; i-- {
			n := s.sendAll[i]
			if strings.HasPrefix(path, n.root+"/") {
				s.sendPoint(n, label, path)
				return
			}
		}
		return
	}
	if label == "cache.lock" {
		// inserted by tools/maporder in front of every write-lock acquisition of
		// the sender's file cache (not a line of /repo); an optional gate
		for i := len(s.sendAll) - 1; i >= 0; i-- {
			n := s.sendAll[i]
			if strings.HasPrefix(path, n.root+"/") {
				s.stat("h1:" + label)
				if n.isDead() || s.hot[label] {
					s.park(n, label, "", nil)
				}
				return
			}
		}
		return
	}
	n := s.nodeForPath(path)
	if n == nil {
		return
	}
	s.recvPoint(n, label, path)
}

func (s *Sim) sendPoint(n *SendNode, label, path string) {
	s.stat("h1:" + label)
	s.stat(fmt.Sprintf("h1:%s:s%d", label, n.inc))
	if n.isDead() {
		return
	}
	if s.sendCrashLabel == label && n.inc == 0 {
		s.mu.Lock()
		s.sendCrashSeen++
		hit := s.sendCrashSeen == s.sendCrashAt
		s.mu.Unlock()
		if hit {
			s.crashSender("label:"+label, s.sc.DownTime)
		}
	}
}

func (s *Sim) recvPoint(n *RecvNode, label, path string) {
	s.stat("h1:" + label)
	if n.isDead() {
		// zombies die at parkable points only (never under a SUT lock)
		if gateLabels[label] || optGateLabels[label] {
			s.park(n, label, s.rel(path), nil)
		}
		return
	}
	n.dirty.Store(true)
	s.ob.onRecvPoint(n, label, path)
	if gateLabels[label] || (optGateLabels[label] && s.hot[label]) {
		s.observeAt(n, "at %s %s", label, s.rel(path))
		var onRel func()
		if label == "stage.clean.begin" && s.onCleanRelease != nil {
			onRel = func() { s.onCleanRelease(n) }
		}
		s.park(n, label, s.rel(path), onRel)
		return
	}
	if label == "stage.receive.recorded" {
		s.net.recordedOnCurrent()
	}
	if label == "stage.process.hashed" {
		n.pending.done(path) // recovery's (or anybody's) validation of this file has happened
	}
	if act, ok := s.pointActions[label]; ok {
		act(n, path)
	}
	// crash point?
	if !isCrashLabel(label) {
		return
	}
	s.mu.Lock()
	s.crashLabels[label]++
	k := s.crashLabels[label]
	want, armed := s.crashArmed[label]
	s.mu.Unlock()
	if armed && want == k && !n.isDead() {
		s.observe("crash at %s #%d %s", label, k, s.rel(path))
		s.crashReceiver(fmt.Sprintf("%s#%d", label, k), s.sc.DownTime)
	}
}

func isCrashLabel(label string) bool {
	if gateLabels[label] {
		return false
	}
	switch label {
	case "stage.prepare", "stage.received", "stage.status", "stage.scan", "stage.pathlock":
		return false
	}
	return true
}

// ------------------------------------------------------------ hashing reader

type hashReader struct {
	r io.Reader
	h hash.Hash
	n int64
}

func (h *hashReader) Read(p []byte) (int, error) {
	n, err := h.r.Read(p)
	if n > 0 {
		h.h.Write(p[:n])
		h.n += int64(n)
	}
	return n, err
}

func md5hex(h hash.Hash) string { return hex.EncodeToString(h.Sum(nil)) }

// ------------------------------------------------------------ GateKeeper

type partDesc struct {
	Name    string `json:"n"`
	Renamed string `json:"r,omitempty"`
	Prev    string `json:"p,omitempty"`
	Hash    string `json:"h"`
	TimeNs  int64  `json:"t"`
	Size    int64  `json:"s"`
	Beg     int64  `json:"b"`
	End     int64  `json:"e"`
}

func (p partDesc) key() string { return fmt.Sprintf("%s|%d|%d|%s", p.Name, p.Beg, p.End, p.Hash) }
func (p partDesc) String() string {
	return fmt.Sprintf("%s[%d:%d]h=%s", p.Name, p.Beg, p.End, short(p.Hash))
}

func short(h string) string {
	if len(h) > 6 {
		return h[:6]
	}
	return h
}

func descOfBinned(b sts.Binned) partDesc {
	beg, l := b.GetSlice()
	return partDesc{Name: b.GetName(), Renamed: b.GetRenamed(), Prev: b.GetPrev(), Hash: b.GetFileHash(),
		TimeNs: b.GetFileTime().UnixNano(), Size: b.GetFileSize(), Beg: beg, End: beg + l}
}

// on the receiving side fileMeta.GetSlice returns (Beg, End)
func descOfDecoded(b sts.Binned) partDesc {
	beg, end := b.GetSlice()
	return partDesc{Name: b.GetName(), Renamed: b.GetRenamed(), Prev: b.GetPrev(), Hash: b.GetFileHash(),
		TimeNs: b.GetFileTime().UnixNano(), Size: b.GetFileSize(), Beg: beg, End: end}
}

type gkDeco struct {
	s      *Sim
	n      *RecvNode
	source string
	gk     sts.GateKeeper
}

func (s *Sim) wrapGK(n *RecvNode, source string, gk sts.GateKeeper) sts.GateKeeper {
	d := &gkDeco{s: s, n: n, source: source, gk: gk}
	noteGateKeeper(s, gk)
	s.mu.Lock()
	n.gks[source] = d
	s.mu.Unlock()
	return d
}

func (d *gkDeco) Recover()              { d.gk.Recover() }
func (d *gkDeco) CleanNow()             { d.gk.CleanNow() }
func (d *gkDeco) Prune(t time.Duration) {
	d.s.restamp(d.n)
	if d.s.on("C20") && !d.n.isDead() {
		cs := d.s.takeCleanSnap(d.n, "prune")
		d.gk.Prune(t)
		d.s.judgeCleanPass(cs, snapshotTree(d.n.stageDir(), nil), t)
		return
	}
	d.gk.Prune(t)
}
func (d *gkDeco) Ready() bool           { return d.gk.Ready() }
func (d *gkDeco) Stop(f bool)           { d.gk.Stop(f) }

func (d *gkDeco) Scan(version string) ([]byte, error) {
	b, err := d.gk.Scan(version)
	if !d.n.isDead() {
		d.s.ob.onScan(d, b, err)
	}
	return b, err
}

func (d *gkDeco) Prepare(parts []sts.Binned) {
	if !d.n.isDead() {
		descs := make([]partDesc, len(parts))
		for i, p := range parts {
			descs[i] = descOfDecoded(p)
		}
		d.s.ob.onPrepare(d, descs)
		if d.s.w2m != nil {
			d.s.w2m.onGKCall(d, "Prepare")
			d.s.w2m.onPrepare(d, descs)
		}
	}
	d.gk.Prepare(parts)
}

func (d *gkDeco) Receive(file *sts.Partial, r io.Reader) error {
	hr := &hashReader{r: r, h: md5.New()}
	if d.s.w2m != nil && !d.n.isDead() {
		d.s.w2m.onGKCall(d, "Receive")
		pd := partDesc{Name: file.Name, Hash: file.Hash, Size: file.Size}
		if len(file.Parts) == 1 {
			pd.Beg, pd.End = file.Parts[0].Beg, file.Parts[0].End
		}
		defer d.s.w2m.beginReceive(d, pd, hr)()
	}
	if inj := d.s.recvErrInject; inj != nil && !d.n.isDead() {
		if err := inj(d, file); err != nil {
			return err
		}
	}
	sp := d.s.spanBegin(d.source, file.Name, file.Hash)
	err := d.gk.Receive(file, hr)
	d.s.spanEnd(sp)
	if !d.n.isDead() {
		d.s.ob.onReceive(d, file, hr.n, md5hex(hr.h), err)
	}
	return err
}

func (d *gkDeco) Received(parts []sts.Binned) int {
	n := d.gk.Received(parts)
	if !d.n.isDead() {
		descs := make([]partDesc, len(parts))
		for i, p := range parts {
			descs[i] = descOfDecoded(p)
		}
		d.s.ob.onReceivedQuery(d, descs, n)
	}
	return n
}

// GetFileVersionStatus forwards the optional version-aware status call when
// the wrapped gatekeeper has one (otherwise the name-only call answers).
func (d *gkDeco) GetFileVersionStatus(relPath, hash string, sent time.Time) int {
	type versioned interface {
		GetFileVersionStatus(relPath, hash string, sent time.Time) int
	}
	var code int
	if v, ok := d.gk.(versioned); ok {
		code = v.GetFileVersionStatus(relPath, hash, sent)
	} else {
		code = d.gk.GetFileStatus(relPath, sent)
	}
	if !d.n.isDead() {
		d.s.ob.onStatus(d, relPath, sent, code)
	}
	return code
}

func (d *gkDeco) GetFileStatus(relPath string, sent time.Time) int {
	code := d.gk.GetFileStatus(relPath, sent)
	if !d.n.isDead() {
		d.s.ob.onStatus(d, relPath, sent, code)
	}
	return code
}

// ------------------------------------------------------------ sender

type senderDeco struct {
	s *Sim
	n *SendNode

	inDone atomic.Bool

	store sts.FileSource
	cache sts.FileCache
	queue sts.FileQueue
	logger sts.SendLogger
	recoverer sts.Recover
	build  sts.PayloadFactory
	tx     sts.Transmit
	txrec  sts.RecoverTransmission
	val    sts.Validate
}

func (s *Sim) decorateSender(n *SendNode, c *clientApp) *senderDeco {
	conf := c.broker.Conf
	d := &senderDeco{s: s, n: n, store: conf.Store, cache: conf.Cache, queue: conf.Queue, logger: conf.Logger,
		recoverer: conf.Recoverer, build: conf.BuildPayload, tx: conf.Transmitter, txrec: conf.TxRecoverer, val: conf.Validator}
	sd := &storeDeco{d}
	conf.Store = sd
	conf.BuildPayload = func(size int64, _ sts.Open, renamer sts.Rename) sts.Payload {
		return d.build(size, sd.opener(false), renamer)
	}
	conf.Cache = &cacheDeco{d}
	conf.Queue = &queueDeco{d}
	conf.Logger = &loggerDeco{d}
	conf.Recoverer = d.recover
	conf.Transmitter = d.transmit
	conf.TxRecoverer = d.txRecover
	conf.Validator = d.validate
	return d
}

// act is the gate in front of every externally visible sender action. The
// action index is assigned when the scheduler releases the gate.
func (d *senderDeco) act(label, key string, network bool) {
	s := d.s
	if d.n.isDead() {
		// a crashed sender's goroutines end at their next action; whether they
		// get there at all races with the (stopped) broker noticing the stop,
		// so they must not leave an observation behind
		runtime.Goexit()
	}
	s.observeAt(d.n, "want %s %s", label, key)
	s.park(d.n, label, key, func() {
		d.n.actions++
		s.stats["act:"+label]++
		if network {
			s.net.dialTag = "sender"
		}
		if s.sendCrashLabel == "" && s.sendCrashAt > 0 && d.n.actions == s.sendCrashAt && !d.n.isDead() && d.n.inc == s.sendCrashInc {
			s.crashSender(fmt.Sprintf("action#%d:%s", d.n.actions, label), s.sc.DownTime)
		}
		if s.stopAt > 0 && d.n.actions == s.stopAt && !d.n.stopped && d.n.inc == 0 {
			s.requestStop(d.n, s.stopGraceful)
			s.ob.onStopRequested(d.n)
		}
	})
}

type storeDeco struct{ d *senderDeco }

func (x *storeDeco) Scan(f func(sts.File) bool) ([]sts.File, time.Time, error) {
	x.d.act("store.scan", "", false)
	start := time.Now()
	files, t, err := x.d.store.Scan(f)
	x.d.s.ob.onScanDone(x.d.n, start, files, err)
	return files, t, err
}
func (x *storeDeco) GetOpener() sts.Open { return x.opener(true) }

// opener: the payload encoder opens its files while holding its own lock
// (payload.Encoder.Read), so that caller gets the non-parking variant.
func (x *storeDeco) opener(park bool) sts.Open {
	op := x.d.store.GetOpener()
	return func(f sts.File) (sts.Readable, error) {
		if park {
			x.d.act("store.open", f.GetName(), false)
		} else if x.d.n.isDead() {
			return nil, fmt.Errorf("dead")
		}
		r, err := op(f)
		if err != nil {
			return r, err
		}
		return x.d.s.ob.wrapReadable(x.d.n, f, r), nil
	}
}
func (x *storeDeco) Remove(f sts.File) error {
	// nested inside Cache.Done (under the cache lock): an observation of that
	// action; called directly by the scan clean-up: an action of its own
	// Never a gate: sts decides to delete after a stat of the same path, and
	// parking here would let the environment replace the file inside that
	// check-then-unlink window, which POSIX gives sts no means to close
	// (stated limit in DESIGN.md). It counts as part of the enclosing action.
	if x.d.n.isDead() {
		return fmt.Errorf("dead")
	}
	x.d.s.ob.onRemove(x.d.n, f)
	return x.d.store.Remove(f)
}
func (x *storeDeco) Sync(f sts.File) (sts.File, error) { return x.d.store.Sync(f) }
func (x *storeDeco) IsNotExist(err error) bool         { return x.d.store.IsNotExist(err) }
func (x *storeDeco) ShouldIgnore(f sts.File) bool      { return x.d.store.ShouldIgnore(f) }

type cacheDeco struct{ d *senderDeco }

func (x *cacheDeco) Iterate(f func(sts.Cached) bool) {
	// the real cache exposes map order; fix the order here
	var all []sts.Cached
	x.d.cache.Iterate(func(c sts.Cached) bool { all = append(all, c); return false })
	sort.Slice(all, func(i, j int) bool { return all[i].GetName() < all[j].GetName() })
	for _, c := range all {
		if f(c) {
			break
		}
	}
}
func (x *cacheDeco) Get(k string) sts.Cached { return x.d.cache.Get(k) }
func (x *cacheDeco) Add(h sts.Hashed) {
	x.d.act("cache.add", h.GetName(), false)
	x.d.s.ob.onCacheAdd(x.d.n, h)
	x.d.cache.Add(h)
}
func (x *cacheDeco) Done(name string, whileLocked func(sts.Cached)) {
	x.d.act("cache.done", name, false)
	x.d.s.ob.onCacheDone(x.d.n, name, x.d.cache.Get(name))
	x.d.inDone.Store(true)
	defer x.d.inDone.Store(false)
	x.d.cache.Done(name, whileLocked)
}

// DoneIfHash: optional method of the real cache (marks done only if the cached
// version is still the one that was confirmed); forwarded when it exists.
func (x *cacheDeco) DoneIfHash(name, hash string, whileLocked func(sts.Cached)) {
	c, ok := x.d.cache.(interface {
		DoneIfHash(string, string, func(sts.Cached))
	})
	if !ok {
		x.Done(name, whileLocked)
		return
	}
	x.d.act("cache.done", name, false)
	if cur := x.d.cache.Get(name); cur != nil && cur.GetHash() == hash && !cur.IsDone() {
		x.d.s.ob.onCacheDone(x.d.n, name, cur)
	}
	x.d.inDone.Store(true)
	defer x.d.inDone.Store(false)
	c.DoneIfHash(name, hash, whileLocked)
}
func (x *cacheDeco) Reset(k string) { x.d.cache.Reset(k) }
func (x *cacheDeco) Remove(k string) {
	x.d.act("cache.remove", k, false)
	x.d.s.ob.onCacheRemove(x.d.n, k)
	x.d.cache.Remove(k)
}
func (x *cacheDeco) Persist() error {
	x.d.act("cache.persist", "", false)
	err := x.d.cache.Persist()
	x.d.s.ob.onPersist(x.d.n, err)
	return err
}

type queueDeco struct{ d *senderDeco }

func (x *queueDeco) Push(files []sts.Hashed) {
	names := make([]string, len(files))
	for i, f := range files {
		names[i] = f.GetName()
	}
	x.d.act("queue.push", strings.Join(names, ","), false)
	x.d.s.ob.onPush(x.d.n, files)
	x.d.queue.Push(files)
}
func (x *queueDeco) Pop() sts.Sendable {
	// Pop is polled every millisecond; gate it only when it yields something,
	// by peeking: a nil Pop has no externally visible effect.
	r := x.d.queue.Pop()
	if r == nil {
		return nil
	}
	beg, l := r.GetSlice()
	x.d.s.ob.onPop(x.d.n, r)
	x.d.act("queue.pop", fmt.Sprintf("%s@%d+%d", r.GetName(), beg, l), false)
	return r
}

type loggerDeco struct{ d *senderDeco }

func (x *loggerDeco) Sent(f sts.Sent) {
	x.d.act("log.sent", f.GetName(), false)
	x.d.s.ob.onSentLog(x.d.n, f)
	x.d.logger.Sent(f)
}
func (x *loggerDeco) WasSent(name, hash string, a, b time.Time) bool {
	return x.d.logger.WasSent(name, hash, a, b)
}

func payloadDescs(p sts.Payload) []partDesc {
	parts := p.GetParts()
	out := make([]partDesc, len(parts))
	for i, b := range parts {
		out[i] = descOfBinned(b)
	}
	return out
}

func payloadKey(p sts.Payload) string {
	parts := p.GetParts()
	if len(parts) == 0 {
		return "empty"
	}
	d := descOfBinned(parts[0])
	return fmt.Sprintf("%s@%d+%d", d.Name, d.Beg, len(parts))
}

func (d *senderDeco) transmit(p sts.Payload) (int, error) {
	d.act("net.transmit", payloadKey(p), true)
	descs := payloadDescs(p)
	sends := make([]int64, len(descs))
	for i, b := range p.GetParts() {
		sends[i] = b.GetSendSize()
	}
	id := d.s.ob.onTransmitBegin(d.n, descs, sends, p.GetSize())
	n, err := d.tx(p)
	if !d.n.isDead() {
		d.s.ob.onTransmitEnd(d.n, id, n, err)
	}
	return n, err
}

func (d *senderDeco) txRecover(p sts.Payload) (int, error) {
	d.act("net.txrecover", payloadKey(p), true)
	descs := payloadDescs(p)
	n, err := d.txrec(p)
	if !d.n.isDead() {
		d.s.ob.onTxRecover(d.n, descs, n, err)
	}
	return n, err
}

func (d *senderDeco) validate(in []sts.Pollable) ([]sts.Polled, error) {
	// order chosen by the harness (set-valued data crossing the boundary)
	sorted := append([]sts.Pollable(nil), in...)
	sort.SliceStable(sorted, func(i, j int) bool { return sorted[i].GetName() < sorted[j].GetName() })
	names := make([]string, len(sorted))
	for i, f := range sorted {
		names[i] = f.GetName()
	}
	d.act("net.validate", strings.Join(names, ","), true)
	id := d.s.ob.onValidateBegin(d.n, sorted)
	out, err := d.val(sorted)
	sort.SliceStable(out, func(i, j int) bool { return out[i].GetName() < out[j].GetName() })
	if !d.n.isDead() {
		d.s.ob.onValidateEnd(d.n, id, out, err)
	}
	return out, err
}

func (d *senderDeco) recover() ([]*sts.Partial, error) {
	d.act("net.partials", "", true)
	out, err := d.recoverer()
	sort.SliceStable(out, func(i, j int) bool { return out[i].Name < out[j].Name })
	if !d.n.isDead() {
		d.s.ob.onPartials(d.n, out, err)
	}
	return out, err
}
