package main

// C13 in world W2: a scripted peer sends well-formed data requests of every
// shape the statement lists - 1..n parts (up to several hundred, so that the
// JSON header alone is many kilobytes), slices at the start, middle and end of
// a file, every gzip level, either separator convention, names with unicode,
// spaces and separator characters - over a connection that delivers them in
// fragments of 1 to 4096 bytes, plus requests cut short inside header or
// body. The receiver must decode exactly the descriptors that were encoded,
// for each part exactly its bytes, and must not refuse an intact request.

import (
	"fmt"
	"math/rand/v2"
	"strings"
	"time"
)

func genC13W2(seed uint64) *Scenario {
	sc, _ := baseW2("C13", seed)
	g := &gen{r: rand.New(rand.NewPCG(seed, 0x13b))}
	sc.Extra = map[string]any{"c13w2": true}
	sc.NetFinePct = g.pick(30, 100, 100)
	sc.NetWindow = g.pick(0, 0, 4096, 100)
	sc.MaxInFlight = 1 + g.n(2)
	sc.MaxSteps = 60000
	sc.Settle = time.Minute
	sep := ""
	if g.pct(35) {
		sep = `\`
	}
	stems := []string{"a", "data file", "ünï cødé", "x.y.z", "plus+and%25", "colon:name", "UPPER", "tab\tname"}
	nreq := 1 + g.n(4)
	for rq := 0; rq < nreq; rq++ {
		nparts := g.pick(1, 1, 2, 3, 5, 12, 40, 300)
		op := PeerOp{Kind: "data", Source: "src1", Gzip: g.pick(0, 0, 1, 5, 9), Sep: sep}
		for k := 0; k < nparts; k++ {
			stem := stems[g.n(len(stems))]
			dir := ""
			if g.pct(40) {
				dir = []string{"d1", "d1/d2", "dir with space"}[g.n(3)] + "/"
			}
			name := fmt.Sprintf("%s%s.%d.%d", dir, stem, rq, k)
			if nparts >= 40 && g.pct(50) {
				name = fmt.Sprintf("%slong-%s.%d.%d", dir, strings.Repeat("n", 20+g.n(60)), rq, k)
			}
			f := PeerFile{Name: name, Size: int64(1 + g.n(g.pick(3, 50, 900))), Seed: g.u64(), TimeS: int64(100 + g.n(9000))}
			if g.pct(15) {
				f.Renamed = "renamed/" + fmt.Sprintf("r.%d.%d", rq, k)
			}
			if sep != "" {
				// the peer speaks the other convention: its names use its separator
				f.Name = strings.ReplaceAll(f.Name, "/", sep)
				f.Renamed = strings.ReplaceAll(f.Renamed, "/", sep)
			}
			sc.PeerFiles = append(sc.PeerFiles, f)
			fi := len(sc.PeerFiles) - 1
			switch g.n(5) {
			case 0: // a slice at the start
				e := 1 + int64(g.n(int(f.Size)))
				op.Parts = append(op.Parts, PeerPart{fi, 0, e})
			case 1: // in the middle
				b := int64(g.n(int(f.Size)))
				e := b + 1 + int64(g.n(int(f.Size-b)))
				op.Parts = append(op.Parts, PeerPart{fi, b, e})
			case 2: // at the end
				b := int64(g.n(int(f.Size)))
				op.Parts = append(op.Parts, PeerPart{fi, b, f.Size})
			default: // the whole file, sometimes in two adjacent slices
				if f.Size > 1 && g.pct(30) {
					c := 1 + int64(g.n(int(f.Size-1)))
					op.Parts = append(op.Parts, PeerPart{fi, 0, c}, PeerPart{fi, c, f.Size})
				} else {
					op.Parts = append(op.Parts, PeerPart{fi, 0, f.Size})
				}
			}
		}
		if g.pct(20) {
			// cut short somewhere in header or body: refused or partly taken,
			// never attributed to the wrong part
			var tot int
			for _, p := range op.Parts {
				tot += int(p.End - p.Beg)
			}
			op.Truncate = 1 + g.n(tot+120*len(op.Parts))
			if op.Gzip != 0 {
				op.Gzip = 0
			}
		}
		sc.Peer = append(sc.Peer, op)
		if g.pct(30) {
			sc.Peer = append(sc.Peer, PeerOp{Kind: "recovery", Source: "src1", Parts: op.Parts, Gzip: g.pick(0, 9), Sep: sep, Sync: true})
		}
	}
	sc.Peer = append(sc.Peer, PeerOp{Kind: "settle", Sync: true})
	sc.Peer = append(sc.Peer, PeerOp{Kind: "partials", Source: "src1", Sync: true})
	return sc
}

// c13w2AfterOp: an intact request is decoded and accepted.
func (s *Sim) c13w2AfterOp(op *PeerOp, pc *peerCall) {
	if !s.on("C13") || s.sc.Mode != "w2" || len(s.ob.crashes) > 0 {
		return
	}
	if (op.Kind != "data" && op.Kind != "recovery") || op.Truncate != 0 || op.RawMeta != "" || op.MetaLen != "" || pc.Err != "" {
		return
	}
	if pc.Status != 200 && pc.Status != 503 {
		s.violate("C13", "intact-request-refused", "a well-formed %s request with %d parts (gzip %d, separator %q) that reached the receiver completely was answered %d %s", op.Kind, len(op.Parts), op.Gzip, op.Sep, pc.Status, strings.TrimSpace(string(pc.Body)))
	}
}

// c13w2Received: the descriptor the receiver decoded is one the peer encoded
// (with the peer's separator translated to the receiver's).
func (s *Sim) c13w2Received(r *recvPartObs) {
	if !s.on("C13") || s.sc.Mode != "w2" {
		return
	}
	norm := func(x string, sep string) string {
		if sep == "" {
			return x
		}
		return strings.ReplaceAll(x, sep, "/")
	}
	seps := []string{"", `\`}
	for _, a := range s.extraAnnounced {
		for _, sp := range seps {
			b := a
			b.Name, b.Renamed, b.Prev = norm(a.Name, sp), norm(a.Renamed, sp), norm(a.Prev, sp)
			if b == r.Desc {
				return
			}
		}
	}
	closest := ""
	for _, a := range s.extraAnnounced {
		if norm(a.Name, `\`) == r.Desc.Name && a.Beg == r.Desc.Beg && a.End == r.Desc.End {
			closest = fmt.Sprintf("name=%q renamed=%q prev=%q hash=%s time=%d size=%d", a.Name, a.Renamed, a.Prev, a.Hash, a.TimeNs, a.Size)
		}
	}
	s.violate("C13", "decoded-descriptor-not-encoded", "receiver decoded part name=%q renamed=%q prev=%q hash=%s time=%d size=%d [%d:%d) which the peer never encoded (closest encoded: %s)",
		r.Desc.Name, r.Desc.Renamed, r.Desc.Prev, r.Desc.Hash, r.Desc.TimeNs, r.Desc.Size, r.Desc.Beg, r.Desc.End, closest)
}
