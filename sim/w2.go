package main

// World W2: the real receiver against a scripted peer that speaks the wire
// protocol by hand (arbitrary part orders, duplicates, overlaps, truncation,
// hostile names, wrong credentials).

import (
	"fmt"
	"os"
	"path/filepath"
	"sort"
	"strings"
	"time"
)

type PeerFile struct {
	Name    string `json:"name"`
	Size    int64  `json:"size"`
	Seed    uint64 `json:"seed"`
	Renamed string `json:"renamed,omitempty"`
	Prev    string `json:"prev,omitempty"`
	TimeS   int64  `json:"time_s"`   // file time, seconds before epoch
	BadHash bool   `json:"bad_hash,omitempty"` // announce a hash the content does not have
}

type PeerPart struct {
	File int   `json:"f"`
	Beg  int64 `json:"b"`
	End  int64 `json:"e"`
}

type PeerOp struct {
	Kind     string     `json:"kind"` // data, recovery, poll, partials, static-get, static-del, clean, prune, restart, wait, crash, age
	Parts    []PeerPart `json:"parts,omitempty"`
	Names    []string   `json:"names,omitempty"`
	Source   string     `json:"source,omitempty"`
	Key      string     `json:"key,omitempty"`
	Sep      string     `json:"sep,omitempty"`
	Gzip     int        `json:"gzip,omitempty"`
	MetaLen  string     `json:"metalen,omitempty"`
	Truncate int        `json:"truncate,omitempty"`
	RawMeta  string     `json:"rawmeta,omitempty"`
	Path     string     `json:"path,omitempty"`
	Query    string     `json:"query,omitempty"`
	Dur      time.Duration `json:"dur,omitempty"`
	Sync     bool       `json:"sync,omitempty"` // wait until every earlier op has completed
	NoSrcHdr bool       `json:"no_src_hdr,omitempty"`
	Label    string     `json:"label,omitempty"`
	Age      int64      `json:"age_s,omitempty"`
	K        int        `json:"k,omitempty"`
}

type w2state struct {
	next     int
	inflight int
	calls    []*peerCall
	opOf     map[*peerCall]*PeerOp
	// a "wait" with Sync holds back the rest of the script until it is over
	// (without Sync it only makes sure the run lasts that long)
	blockUntil time.Duration
}

func (s *Sim) peerFileHash(f *PeerFile) string {
	h := bytesMD5(genContent(f.Seed, f.Size))
	if f.BadHash {
		return "0123456789abcdef0123456789abcdef"[:len(h)]
	}
	return h
}

func (s *Sim) buildWire(op *PeerOp) *wireReq {
	w := &wireReq{Source: op.Source, Key: op.Key, Sep: op.Sep, Gzip: op.Gzip, MetaLen: op.MetaLen, Truncate: op.Truncate}
	if op.RawMeta != "" {
		w.RawMeta = []byte(op.RawMeta)
	}
	for _, pp := range op.Parts {
		f := &s.sc.PeerFiles[pp.File]
		data := genContent(f.Seed, f.Size)
		ft := time.Unix(s.sc.EpochUnix-f.TimeS, 0)
		end := pp.End
		if end > int64(len(data)) {
			end = int64(len(data))
		}
		beg := pp.Beg
		if beg > end {
			beg = end
		}
		w.Parts = append(w.Parts, wirePart{Name: f.Name, Renamed: f.Renamed, Prev: f.Prev, Hash: s.peerFileHash(f), Time: nanoStr(ft), Size: f.Size, Beg: pp.Beg, End: pp.End, data: data[beg:end]})
	}
	return w
}

func (s *Sim) runW2() {
	sc := s.sc
	st := &w2state{opOf: map[*peerCall]*PeerOp{}}
	s.w2 = st
	s.installOperator()
	// sandbox with sentinels around the receiver's roots (C14)
	s.makeSandbox()
	s.installW2Oracles()
	s.installC20()
	s.bootReceiver(filepath.Join(s.ws, "sandbox", "r0"), 0)
	s.armNextRecvCrash()
	s.extraEvents = func() []event {
		if st.next >= len(sc.Peer) {
			return nil
		}
		op := &sc.Peer[st.next]
		if op.Sync && st.inflight > 0 {
			return nil
		}
		if time.Since(s.epoch) < st.blockUntil {
			return nil
		}
		if st.inflight >= sc.MaxInFlight {
			return nil
		}
		if s.recv == nil && op.Kind != "wait" {
			return nil
		}
		if op.Label == "unauth" || op.Label == "probe" || op.Kind == "settle" {
			// judged in isolation: the receiver must be idle
			s.mu.Lock()
			np := len(s.parked)
			s.mu.Unlock()
			if np > 0 || st.inflight > 0 {
				return nil
			}
		}
		return []event{{label: fmt.Sprintf("peer %03d %s", st.next, op.Kind), weight: 12, do: func() { s.issuePeerOp(st) }}}
	}
	s.stepHooks = append(s.stepHooks, func() {
		// end of run: script done, nothing in flight, receiver idle for a while
		if st.next >= len(sc.Peer) && st.inflight == 0 && s.net.liveConns() == 0 && len(s.pendingEnv()) == 0 {
			s.mu.Lock()
			np := 0
			for _, g := range s.parked {
				if g.label != "stage.clean.begin" {
					np++
				}
			}
			s.mu.Unlock()
			if np == 0 {
				if s.settledAt.IsZero() {
					s.settledAt = time.Now()
				}
				if time.Since(s.settledAt) >= sc.Settle {
					s.ended = true
					s.settledFinal = true
				}
				return
			}
		}
		s.settledAt = time.Time{}
	})
	s.runLoop()
	s.inconclusive = !s.settledFinal
	s.finalOracles()
}

func (s *Sim) issuePeerOp(st *w2state) {
	op := &s.sc.Peer[st.next]
	idx := st.next
	st.next++
	base := "http://recv:1992"
	src := op.Source
	done := func(pc *peerCall) {
		s.w2AfterOp(op, pc)
		s.mu.Lock()
		st.inflight--
		s.mu.Unlock()
	}
	s.w2BeforeOp(op)
	track := func(pc *peerCall) {
		st.inflight++
		st.calls = append(st.calls, pc)
		st.opOf[pc] = op
	}
	tag := fmt.Sprintf("op%03d-%s", idx, op.Kind)
	hdrFor := func(h map[string]string) map[string]string {
		if h == nil {
			h = map[string]string{}
		}
		if !op.NoSrcHdr {
			h["X-STS-SrcName"] = src
		}
		if op.Key != "" {
			h["X-STS-Key"] = op.Key
		}
		if op.Sep != "" {
			h["X-STS-Sep"] = op.Sep
		}
		return h
	}
	s.stat("peer:" + op.Kind)
	switch op.Kind {
	case "data":
		w := s.buildWire(op)
		s.noteAnnounced(w.Parts)
		hdr, body := w.encode(false)
		if op.NoSrcHdr {
			delete(hdr, "X-STS-SrcName")
		}
		s.w2OnIssue(op, w)
		track(s.peerDo(tag, "PUT", base+"/data?v=1"+op.Query, hdr, body, done))
	case "recovery":
		w := s.buildWire(op)
		hdr, body := w.encode(true)
		if op.NoSrcHdr {
			delete(hdr, "X-STS-SrcName")
		}
		track(s.peerDo(tag, "PUT", base+"/data-recovery?v=1"+op.Query, hdr, body, done))
	case "poll":
		hdr := hdrFor(map[string]string{"Content-Type": "application/json"})
		track(s.peerDo(tag, "POST", base+"/validate?v=1"+op.Query, hdr, pollBody(op.Names, s.sc.EpochUnix-3600), done))
	case "partials":
		track(s.peerDo(tag, "GET", base+"/partials?v=1"+op.Query, hdrFor(nil), nil, done))
	case "static-get":
		track(s.peerDo(tag, "GET", base+"/static/"+op.Path+op.Query, hdrFor(nil), nil, done))
	case "static-del":
		track(s.peerDo(tag, "DELETE", base+"/static/"+op.Path+op.Query, hdrFor(nil), nil, done))
	case "clean", "prune", "restart":
		url := fmt.Sprintf("http://recv:1993/%s?source=%s&block", op.Kind, src)
		if op.Kind == "prune" {
			url += fmt.Sprintf("&minage=%d", op.Age)
		}
		s.w2BeforeClean(op)
		track(s.peerDo(tag, "PUT", url, nil, nil, func(pc *peerCall) { done(pc); s.w2AfterClean(op) }))
	case "settle":
		// nothing to do: it only becomes enabled once the receiver is idle
	case "wait":
		s.addEnv(&envAction{Kind: "noop", At: time.Since(s.epoch) + op.Dur})
		if op.Sync {
			st.blockUntil = time.Since(s.epoch) + op.Dur
		}
	case "crash":
		s.crashReceiver("peer-script", s.sc.DownTime)
	case "age":
		s.ageStage(&envAction{Age: op.Age})
	case "corrupt":
		s.corruptStage(&envAction{Seed: uint64(op.K)*7919 + 13})
	}
}

// ---------------------------------------------------------------- sandbox (C14 / C15)

type treeEntry struct {
	Size int64
	MD5  string
	Dir  bool
}

func snapshotTree(root string, skip func(rel string) bool) map[string]treeEntry {
	out := map[string]treeEntry{}
	filepath.Walk(root, func(p string, info os.FileInfo, err error) error {
		if err != nil {
			return nil
		}
		rel, _ := filepath.Rel(root, p)
		if skip != nil && skip(rel) {
			if info.IsDir() {
				return filepath.SkipDir
			}
			return nil
		}
		if info.IsDir() {
			out[rel] = treeEntry{Dir: true}
			return nil
		}
		m, n, _ := fileMD5(p)
		out[rel] = treeEntry{Size: n, MD5: m}
		return nil
	})
	return out
}

func diffTrees(a, b map[string]treeEntry) []string {
	var d []string
	for k, v := range a {
		w, ok := b[k]
		if !ok {
			d = append(d, "removed "+k)
		} else if v != w {
			d = append(d, "changed "+k)
		}
	}
	for k := range b {
		if _, ok := a[k]; !ok {
			d = append(d, "created "+k)
		}
	}
	sort.Strings(d)
	return d
}

const sentinelText = "SENTINEL-CONTENT-DO-NOT-LEAK-4711\n"

func (s *Sim) makeSandbox() {
	sb := filepath.Join(s.ws, "sandbox")
	for _, p := range []string{"secret.txt", "other/keep.dat", "r0/logs/incoming_from/othersrc/202001/01", "r0/final/othersrc/theirs.dat", "r0/stage/othersrc/pending.part", "r0/serve/othersrc/served.txt", "r0/serve/src1/mine.txt", "etc/passwd"} {
		fp := filepath.Join(sb, p)
		os.MkdirAll(filepath.Dir(fp), 0755)
		os.WriteFile(fp, []byte(sentinelText+p+"\n"), 0644)
	}
	os.MkdirAll(filepath.Join(sb, "emptydir"), 0755)
}

// outsideSnapshot: everything in the sandbox except the four roots of the authorised source.
func (s *Sim) outsideSnapshot(source string) map[string]treeEntry {
	sb := filepath.Join(s.ws, "sandbox")
	own := map[string]bool{}
	for i := 0; i < 6; i++ {
		r := fmt.Sprintf("r%d", i)
		own[filepath.Join(r, "stage", source)] = true
		own[filepath.Join(r, "final", source)] = true
		own[filepath.Join(r, "logs", "incoming_from", source)] = true
		own[filepath.Join(r, "serve", source)] = true
		own[filepath.Join(r, "logs", "messages")] = true
		own[filepath.Join(r, "conf.yaml")] = true
	}
	return snapshotTree(sb, func(rel string) bool { return own[rel] })
}

func hasSentinel(b []byte) bool { return strings.Contains(string(b), "SENTINEL-CONTENT") }
