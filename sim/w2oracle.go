package main

// Oracles for world W2: the receiver's record of partial files (C09),
// path confinement (C14), authorisation and start-up recovery (C15),
// clean-up (C20).

import (
	"fmt"
	"os"
	"path/filepath"
	"sort"
	"strings"

	"github.com/arm-doe/sts"
)

type stagedModel struct {
	Name    string
	Hash    string
	Size    int64
	Written []rng // parts completely received for the current hash
	Done    map[string]bool // hashes completed (treated as complete by the receiver)
	Contested bool
}

type w2mon struct {
	s      *Sim
	models map[string]*stagedModel // key: source/name
	before map[string]treeEntry
	beforeAll map[string]treeEntry
	cleanBefore map[string]treeEntry
	probeBefore string
	recovering bool
	c15s       *c15state
	inflight   map[string][]*inflightPart
	began      map[string][]partDesc // every reception ever begun, per source/name
}

// overwrittenByOtherVersion: was a request for ANOTHER version of the name
// prepared or received after this version first appeared? sts stages all
// versions of a name in one file: preparing a version of another size
// recreates it, and a part of another version overwrites what is there, while
// the record changes hands only when such a part is recorded. Bytes of
// version h that were received, written and recorded can so be lost to a
// version that is in flight at the same time. The claim was true when it was
// recorded (which is what the statement asks) and the final hash check
// rejects the mixture; the content comparison cannot be held against sts then.
func (m *w2mon) overwrittenByOtherVersion(src, name, hash string) bool {
	m.s.mu.Lock()
	defer m.s.mu.Unlock()
	seen := false
	for _, p := range m.began[src+"/"+name] {
		if p.Hash == hash {
			seen = true
		} else if seen {
			return true
		}
	}
	// a part of another version whose reception began before this version
	// appeared and is still streaming into the staged file
	for _, f := range m.inflight[src+"/"+name] {
		if f.desc.Hash != hash {
			return true
		}
	}
	return false
}

type inflightPart struct {
	desc partDesc
	hr   *hashReader
}

// onPrepare: a request announcing another version of a name replaces the
// version in progress (its acknowledged parts no longer count).
func (m *w2mon) onPrepare(d *gkDeco, descs []partDesc) {
	for _, p := range descs {
		m.s.mu.Lock()
		if m.began == nil {
			m.began = map[string][]partDesc{}
		}
		m.began[d.source+"/"+p.Name] = append(m.began[d.source+"/"+p.Name], p)
		m.s.mu.Unlock()
		x := m.model(d.source, p.Name)
		if x.Hash == "" {
			x.Hash, x.Size = p.Hash, p.Size
		}
		if x.Hash != p.Hash || x.Size != p.Size {
			x.Hash, x.Size, x.Written = p.Hash, p.Size, nil
			x.Contested = true // several versions of the name in flight: "replaced" cannot be attributed
		}
	}
}

func (m *w2mon) beginReceive(d *gkDeco, desc partDesc, hr *hashReader) func() {
	k := d.source + "/" + desc.Name
	f := &inflightPart{desc: desc, hr: hr}
	m.s.mu.Lock()
	if m.began == nil {
		m.began = map[string][]partDesc{}
	}
	m.began[k] = append(m.began[k], desc)
	if m.inflight == nil {
		m.inflight = map[string][]*inflightPart{}
	}
	m.inflight[k] = append(m.inflight[k], f)
	m.s.mu.Unlock()
	return func() {
		m.s.mu.Lock()
		m.began[k] = append(m.began[k], desc) // its end counts too: it was writing until now
		l := m.inflight[k]
		for i, x := range l {
			if x == f {
				m.inflight[k] = append(l[:i:i], l[i+1:]...)
				break
			}
		}
		m.s.mu.Unlock()
	}
}

func covered(rs []rng, beg, end int64) bool {
	s := append([]rng(nil), rs...)
	sort.Slice(s, func(i, j int) bool { return s[i].Beg < s[j].Beg })
	pos := beg
	for _, r := range s {
		if r.Beg <= pos && r.End > pos {
			pos = r.End
		}
	}
	return pos >= end || beg >= end
}

func (s *Sim) installW2Oracles() {
	m := &w2mon{s: s, models: map[string]*stagedModel{}}
	s.w2m = m
	s.hookReceived = m.onReceived
	s.hookScanListing = m.onScanListingC
	s.hookReceivedQuery = m.onReceivedQueryC
	s.pointActions["stage.receive.full"] = m.onCompleteC
	s.stepHooks = append(s.stepHooks, m.checkCompanionsC)
	s.finalHooks = append(s.finalHooks, m.final, s.c04w2Final)
	if s.on("C14") {
		m.before = s.outsideSnapshot(s.sc.Send.Name)
	}
}

func (m *w2mon) model(src, name string) *stagedModel {
	k := src + "/" + name
	x := m.models[k]
	if x == nil {
		x = &stagedModel{Name: name, Done: map[string]bool{}}
		m.models[k] = x
	}
	return x
}

func (m *w2mon) onReceived(d *gkDeco, r *recvPartObs) {
	s := m.s
	if r.Err != "" {
		return
	}
	want := r.Desc.End - r.Desc.Beg
	if s.on("C09", "C13") && r.N != want {
		s.violate(s.sc.Prop, "short-part-recorded", "receiver recorded part %s after reading %d of %d bytes", r.Desc, r.N, want)
		return
	}
	if r.N != want {
		return
	}
	s.c13w2Received(r)
	x := m.model(d.source, r.Desc.Name)
	if x.Hash != r.Desc.Hash {
		x.Hash, x.Size, x.Written = r.Desc.Hash, r.Desc.Size, nil
	}
	x.Written = append(x.Written, rng{r.Desc.Beg, r.Desc.End})
	// C13 in W2: bytes recorded must be the bytes of that range of the announced content
	if s.on("C13", "C09") {
		for i := range s.sc.PeerFiles {
			f := &s.sc.PeerFiles[i]
			if f.Name == r.Desc.Name && s.peerFileHash(f) == r.Desc.Hash && !f.BadHash {
				data := genContent(f.Seed, f.Size)
				if r.Desc.End <= int64(len(data)) && r.Desc.Beg >= 0 && r.Desc.Beg <= r.Desc.End {
					if bytesMD5(data[r.Desc.Beg:r.Desc.End]) != r.MD5 {
						s.violate(s.sc.Prop, "part-bytes-differ", "part %s recorded with md5 %s, the sender's bytes of that range have md5 %s", r.Desc, short(r.MD5), short(bytesMD5(data[r.Desc.Beg:r.Desc.End])))
					}
				}
			}
		}
	}
}

func (m *w2mon) onComplete(n *RecvNode, path string) {
	s := m.s
	rel, _ := filepath.Rel(n.stageDir(), path)
	x := m.models[rel]
	if x == nil {
		return
	}
	// the part being recorded right now is not in Written yet
	have := append([]rng(nil), x.Written...)
	m.s.mu.Lock()
	for _, f := range m.inflight[rel] {
		if f.hr.n == f.desc.End-f.desc.Beg && f.desc.Hash == x.Hash {
			have = append(have, rng{f.desc.Beg, f.desc.End})
		}
	}
	m.s.mu.Unlock()
	if s.on("C09") && !covered(have, 0, x.Size) {
		s.violate("C09", "complete-with-gaps", "receiver treats %s (size %d) as complete but the completely received parts %v leave a gap", rel, x.Size, have)
	}
	x.Done[x.Hash] = true
}

func (m *w2mon) onScanListing(d *gkDeco, list []*sts.Partial) {
	s := m.s
	if !s.on("C09", "C06") {
		return
	}
	for _, p := range list {
		x := m.models[d.source+"/"+p.Name]
		for _, r := range p.Parts {
			if x == nil || x.Hash != p.Hash || !covered(x.Written, r.Beg, r.End) {
				w := []rng(nil)
				if x != nil && x.Hash == p.Hash {
					w = x.Written
				}
				s.violate(s.sc.Prop, "listing-claims-unreceived-range", "partials listing claims %s[%d:%d) hash %s; completely received for that version: %v", p.Name, r.Beg, r.End, short(p.Hash), w)
			}
		}
	}
}

func (m *w2mon) onReceivedQuery(d *gkDeco, descs []partDesc, n int) {
	s := m.s
	if !s.on("C09", "C08") {
		return
	}
	for i := 0; i < n && i < len(descs); i++ {
		p := descs[i]
		x := m.models[d.source+"/"+p.Name]
		ok := x != nil && ((x.Hash == p.Hash && covered(x.Written, p.Beg, p.End)) || x.Done[p.Hash])
		if !ok {
			s.violate(s.sc.Prop, "claims-unreceived-part", "receiver answers that it holds %d leading parts, but part %d %s was never completely received", n, i, p)
		}
	}
}

// checkCompanions: every acknowledged part stays on record until the file is
// complete or another version replaces it.
func (m *w2mon) checkCompanions() {
	s := m.s
	n := s.recv
	if n == nil || !s.on("C09") {
		return
	}
	keys := make([]string, 0, len(m.models))
	for k := range m.models {
		keys = append(keys, k)
	}
	sort.Strings(keys)
	for _, k := range keys {
		x := m.models[k]
		if x.Done[x.Hash] || len(x.Written) == 0 {
			continue
		}
		base := filepath.Join(n.stageDir(), k)
		if _, err := os.Stat(base + ".part"); err != nil {
			continue
		}
		cmp := readCmp(base + ".cmp")
		if cmp == nil || cmp.Hash != x.Hash {
			continue
		}
		var rec []rng
		for _, r := range cmp.Parts {
			rec = append(rec, rng{r.Beg, r.End})
		}
		for _, w := range x.Written {
			if !covered(rec, w.Beg, w.End) {
				s.violate("C09", "acknowledged-part-dropped", "part %s[%d:%d) was acknowledged but the record now holds only %v", k, w.Beg, w.End, rec)
				return
			}
		}
	}
}

func (m *w2mon) final() {
	s := m.s
	if s.on("C14") {
		after := s.outsideSnapshot(s.sc.Send.Name)
		var bad []string
		for _, d := range diffTrees(m.before, after) {
			f := strings.SplitN(d, " ", 2)
			if !confinedChange(f[0], f[1]) {
				bad = append(bad, d)
			}
		}
		if len(bad) > 0 {
			s.violate("C14", "touched-outside-roots", "files outside the directories a request may use changed: %v", bad)
		}
		for _, pc := range s.peerCalls {
			if hasSentinel(pc.Body) && !strings.Contains(pc.URL, "/static/mine.txt") {
				s.violate("C14", "disclosed-outside-file", "response to %s %s contains the content of a file outside the source's directories", pc.Method, pc.URL)
			}
		}
	}
}

// ---------------------------------------------------------------- C15 / C20 helpers

func (s *Sim) w2OnIssue(op *PeerOp, w *wireReq) {}

func (s *Sim) w2BeforeClean(op *PeerOp) {
	if s.recv == nil {
		return
	}
	s.restamp(s.recv)
	s.w2m.cleanBefore = snapshotTree(s.recv.stageDir(), nil)
}

// w2AfterClean: C20 - what a cleaning pass removed.
func (s *Sim) w2AfterClean(op *PeerOp) {
	n := s.recv
	if true || n == nil || !s.on("C20") || s.w2m.cleanBefore == nil { // superseded by c20.go (judged at the cleaner's own gate)
		return
	}
	after := snapshotTree(n.stageDir(), nil)
	s.judgeCleaning(n, s.w2m.cleanBefore, after, op.Kind)
}

func (s *Sim) judgeCleaning(n *RecvNode, before, after map[string]treeEntry, what string) {
	keys := make([]string, 0, len(before))
	for k := range before {
		keys = append(keys, k)
	}
	sort.Strings(keys)
	for _, k := range keys {
		if _, still := after[k]; still {
			continue
		}
		e := before[k]
		ext := filepath.Ext(k)
		switch {
		case e.Dir:
			// removed directory must have been empty
			for k2 := range before {
				if strings.HasPrefix(k2, k+"/") {
					if _, s2 := after[k2]; s2 || true {
						// children vanished too: only fine if they were themselves legitimately removed; judged on their own
					}
				}
			}
		case ext == ".full" || ext == ".wait":
			// these move on through validation/finalisation, not through cleaning; a finalize running concurrently is fine
		case ext == ".part" || ext == ".cmp":
			rel := strings.TrimSuffix(k, ext)
			parts := strings.SplitN(rel, "/", 2)
			if len(parts) != 2 {
				continue
			}
			src, name := parts[0], parts[1]
			hash := s.w2m.hashBefore(n, k, rel)
			if s.w2m.promoted(after, rel) {
				continue // became .full/.wait or was delivered through the normal path
			}
			if hash != "" && s.logHas(n, src, name, hash) > 0 {
				continue
			}
			if hash == "" && s.logHas(n, src, name, "") > 0 {
				continue
			}
			delivered := false
			for _, a := range s.ob.arrivals {
				if (hash == "" || a.MD5 == hash) && trimSrc(a.Path, src) == name {
					delivered = true
				}
			}
			if delivered {
				continue
			}
			s.violate("C20", "cleaned-undelivered-data", "%s removed %s (announced hash %s) although that file has neither been delivered nor logged", what, k, short(hash))
		}
	}
}

func (m *w2mon) promoted(after map[string]treeEntry, rel string) bool {
	for _, ext := range []string{".full", ".wait"} {
		if _, ok := after[rel+ext]; ok {
			return true
		}
	}
	return false
}

// hashBefore: the announced hash of the version a staged partial belonged to,
// from the model (the companion may be gone already).
func (m *w2mon) hashBefore(n *RecvNode, k, rel string) string {
	if x := m.models[rel]; x != nil {
		return x.Hash
	}
	return ""
}

var _ = fmt.Sprint

// ---------------------------------------------------------------- C15

type c15state struct {
	snap      map[string]treeEntry
	lastProbe map[string]string
	dirty     bool // an authorised, possibly mutating request happened since the last probe
}

func (m *w2mon) c15() *c15state {
	if m.c15s == nil {
		m.c15s = &c15state{lastProbe: map[string]string{}}
	}
	return m.c15s
}

func (s *Sim) w2BeforeOp(op *PeerOp) {
	if !s.on("C15") {
		return
	}
	c := s.w2m.c15()
	switch op.Label {
	case "unauth":
		if s.recv != nil {
			s.restamp(s.recv)
		}
		c.snap = snapshotTree(filepath.Join(s.ws, "sandbox"), nil)
	case "probe":
	default:
		c.dirty = true
	}
}

func (s *Sim) w2AfterOp(op *PeerOp, pc *peerCall) {
	s.c13w2AfterOp(op, pc)
	if !s.on("C15") {
		return
	}
	c := s.w2m.c15()
	switch op.Label {
	case "unauth":
		want := 403
		src := op.Source
		if src == "" {
			want = 400
		}
		if pc.Status != want && !(pc.Status == 400 && (op.Kind == "static-get" || op.Kind == "static-del")) {
			s.violate("C15", "unauthorised-not-refused", "%s request with source %q key %q answered %d (expected %d)", op.Kind, op.Source, op.Key+op.Query, pc.Status, want)
		}
		if s.recv != nil {
			s.restamp(s.recv)
		}
		after := snapshotTree(filepath.Join(s.ws, "sandbox"), nil)
		if d := diffTrees(c.snap, after); len(d) > 0 {
			s.violate("C15", "unauthorised-request-had-effect", "refused %s request (source %q) changed the receiver's directories: %v", op.Kind, op.Source, d)
		}
	case "probe":
		key := op.Kind
		body := fmt.Sprintf("%d %s", pc.Status, string(pc.Body))
		if prev, ok := c.lastProbe[key]; ok && !c.dirty && prev != body {
			s.violate("C15", "authorised-answers-changed", "the answer an authorised %s request gets changed across refused requests: %q -> %q", op.Kind, prev, body)
		}
		c.lastProbe[key] = body
		if key == "poll" {
			c.dirty = false
		}
	case "during-recovery":
	}
}

func (m *w2mon) onGKCall(d *gkDeco, what string) {
	s := m.s
	if !s.on("C15") {
		return
	}
	if v, ok := d.n.recovering.Load(d.source); ok && v.(bool) {
		s.violate("C15", "request-processed-during-recovery", "%s reached the staging area of %s while start-up recovery of that source had not finished", what, d.source)
	} else if p := d.n.pending.pendingFor(d.n.stageDir(), d.source); p != "" {
		// the receiver says recovery is complete, but a file that recovery found
		// completely received has not been validated again yet
		s.violate("C15", "request-processed-during-recovery", "%s reached the staging area of %s although start-up recovery has not yet validated %s, which it found completely received", what, d.source, s.rel(p))
	}
}
