package main

// Content-based judgement of the receiver's claims (C09): a claim to hold a
// byte range of version h is sound iff the staged bytes of that range ARE
// the bytes of version h. The peer's file contents are known exactly.

import (
	"os"
	"path/filepath"
	"sort"
	"strings"

	"github.com/arm-doe/sts"
)

func (s *Sim) peerContent(name, hash string) []byte {
	for i := range s.sc.PeerFiles {
		f := &s.sc.PeerFiles[i]
		if f.Name == name && !f.BadHash && s.peerFileHash(f) == hash {
			return genContent(f.Seed, f.Size)
		}
	}
	return nil
}

// stagedRange reads the staged bytes of a range from whatever state the file is in.
func stagedRange(n *RecvNode, src, name string, beg, end int64) ([]byte, string) {
	base := filepath.Join(n.stageDir(), src, name)
	for _, ext := range []string{".part", ".full", ".wait"} {
		b, err := os.ReadFile(base + ext)
		if err != nil {
			continue
		}
		if end > int64(len(b)) || beg < 0 || beg > end {
			return nil, ext + " too short"
		}
		return b[beg:end], ext
	}
	return nil, "absent"
}

func (m *w2mon) delivered(src, name, hash string) bool {
	s := m.s
	for _, a := range s.ob.arrivals {
		if a.MD5 == hash && (a.Path == src+"/"+name || s.renamedTarget(src, name, hash) == a.Path) {
			return true
		}
	}
	return false
}

func (s *Sim) renamedTarget(src, name, hash string) string {
	for _, p := range s.extraAnnounced {
		if p.Name == name && p.Hash == hash && p.Renamed != "" {
			return src + "/" + p.Renamed
		}
	}
	return ""
}

func (m *w2mon) claimSound(n *RecvNode, src, name, hash string, beg, end int64) (bool, string) {
	want := m.s.peerContent(name, hash)
	if want == nil {
		return true, "" // unknown content (bad-hash files): cannot judge
	}
	if end > int64(len(want)) || beg < 0 || beg > end {
		return false, "range outside the file"
	}
	// the bytes may sit in any of the staged forms (a complete .full next to a
	// freshly prepared empty .part, for instance)
	base := filepath.Join(n.stageDir(), src, name)
	why := "no staged file"
	for _, ext := range []string{".part", ".full", ".wait"} {
		b, err := os.ReadFile(base + ext)
		if err != nil {
			continue
		}
		if end <= int64(len(b)) && string(b[beg:end]) == string(want[beg:end]) {
			return true, ""
		}
		why = "staged bytes (" + ext + ") differ from the version's bytes"
	}
	if m.delivered(src, name, hash) {
		return true, "" // delivered; a later version may be staged now
	}
	if m.overwrittenByOtherVersion(src, name, hash) {
		m.s.stat("probe:claim-of-contested-name")
		return true, ""
	}
	return false, why
}

func (m *w2mon) onCompleteC(n *RecvNode, path string) {
	s := m.s
	rel, _ := filepath.Rel(n.stageDir(), path)
	x := m.models[rel]
	if x == nil {
		return
	}
	x.Done[x.Hash] = true
	if !s.on("C09") {
		return
	}
	// treated as complete: the record that led to this decision is the companion on disk
	cmp := readCmp(path + ".cmp")
	if cmp == nil {
		return
	}
	var rec []rng
	for _, r := range cmp.Parts {
		rec = append(rec, rng{r.Beg, r.End})
	}
	if !covered(rec, 0, cmp.Size) {
		s.violate("C09", "complete-with-gaps", "receiver treats %s (size %d) as complete but its record %v does not cover the file", rel, cmp.Size, rec)
		return
	}
	if want := s.peerContent(cmp.Name, cmp.Hash); want != nil {
		got, err := os.ReadFile(path + ".full")
		src := rel
		if i := strings.IndexByte(rel, filepath.Separator); i > 0 {
			src = rel[:i]
		}
		if err == nil && string(got) != string(want) && m.overwrittenByOtherVersion(src, cmp.Name, cmp.Hash) {
			s.stat("probe:complete-mixture-of-contested-name")
		} else if err == nil && string(got) != string(want) {
			// which recorded range is not backed by received bytes?
			for _, r := range rec {
				if r.End <= int64(len(got)) && r.End <= int64(len(want)) && string(got[r.Beg:r.End]) != string(want[r.Beg:r.End]) {
					s.violate("C09", "complete-from-unreceived-bytes", "receiver treats %s as complete; recorded range [%d:%d) does not hold the bytes of the announced version %s", rel, r.Beg, r.End, short(cmp.Hash))
					return
				}
			}
		}
	}
}

func (m *w2mon) onScanListingC(d *gkDeco, list []*sts.Partial) {
	s := m.s
	s.c05Listing(d, list)
	if !s.on("C09", "C06") {
		return
	}
	for _, p := range list {
		// the listing is assembled file by file; an entry whose record changed
		// since it was read is stale, not wrong (it is judged when re-listed)
		cur := readCmp(filepath.Join(d.n.stageDir(), d.source, p.Name+".cmp"))
		if cur == nil || cur.Hash != p.Hash || fmtParts(cur) != fmtParts(p) {
			continue
		}
		for _, r := range p.Parts {
			if ok, why := m.claimSound(d.n, d.source, p.Name, p.Hash, r.Beg, r.End); !ok {
				s.violate(s.sc.Prop, "listing-claims-unreceived-range", "partials listing claims %s[%d:%d) of version %s: %s", p.Name, r.Beg, r.End, short(p.Hash), why)
			}
		}
	}
}

func (m *w2mon) onReceivedQueryC(d *gkDeco, descs []partDesc, n int) {
	s := m.s
	if !s.on("C09", "C08") {
		return
	}
	for i := 0; i < n && i < len(descs); i++ {
		p := descs[i]
		if ok, why := m.claimSound(d.n, d.source, p.Name, p.Hash, p.Beg, p.End); !ok {
			s.violate(s.sc.Prop, "claims-unreceived-part", "receiver answers that it holds %d leading parts, but part %d %s: %s", n, i, p, why)
		}
	}
}

// checkCompanionsC: every acknowledged part stays on record until the file is
// complete or a request announcing another version of the name arrives.
func (m *w2mon) checkCompanionsC() {
	s := m.s
	n := s.recv
	if n == nil || !s.on("C09") {
		return
	}
	keys := make([]string, 0, len(m.models))
	for k := range m.models {
		keys = append(keys, k)
	}
	sort.Strings(keys)
	for _, k := range keys {
		x := m.models[k]
		if x.Done[x.Hash] || len(x.Written) == 0 || x.Contested {
			continue
		}
		base := filepath.Join(n.stageDir(), k)
		if _, err := os.Stat(base + ".part"); err != nil {
			continue
		}
		cmp := readCmp(base + ".cmp")
		if cmp == nil || cmp.Hash != x.Hash {
			continue
		}
		var rec []rng
		for _, r := range cmp.Parts {
			rec = append(rec, rng{r.Beg, r.End})
		}
		for i, w := range x.Written {
			if covered(rec, w.Beg, w.End) {
				continue
			}
			// was it displaced by a later part overlapping it? (known behaviour of addCompanionPart)
			oracle := "acknowledged-part-dropped"
			for _, later := range x.Written[i+1:] {
				if later.Beg < w.End && w.Beg < later.End && later != w {
					oracle = "acknowledged-part-replaced-by-overlapping-part"
				}
			}
			s.violate("C09", oracle, "part %s[%d:%d) was acknowledged but the record now holds only %v", k, w.Beg, w.End, rec)
		}
	}
}
