package main

// World W4 (queue): the real queue.Tagged driven by a pusher and a popper
// task on the fake clock; the tape interleaves their calls. Decides C12
// (priority, round robin, last-file delay) and the queue part of C10/C11.

import (
	"fmt"
	"math/rand/v2"
	"regexp"
	"sort"
	"sync"
	"time"

	"github.com/arm-doe/sts"
	"github.com/arm-doe/sts/queue"
)

type QueueOp struct {
	Task  int      `json:"task"` // 0 pusher, 1 popper
	Kind  string   `json:"kind"` // push, pop, sleep
	Files []QFile  `json:"files,omitempty"`
	N     int      `json:"n,omitempty"`   // pops in a row
	Dur   int64    `json:"dur_s,omitempty"`
}

type QFile struct {
	Name  string `json:"name"`
	Size  int64  `json:"size"`
	AgeS  int64  `json:"age_s"` // mtime = push time - age
	Place bool   `json:"placeholder,omitempty"` // pushed as already sent (fully allocated)
}

type qHashed struct {
	name string
	size int64
	t    time.Time
}

func (f *qHashed) GetPath() string    { return f.name }
func (f *qHashed) GetName() string    { return f.name }
func (f *qHashed) GetSize() int64     { return f.size }
func (f *qHashed) GetTime() time.Time { return f.t }
func (f *qHashed) GetMeta() []byte    { return nil }
func (f *qHashed) GetHash() string    { return "h-" + f.name }

type qPlaceholder struct{ qHashed }

func (f *qPlaceholder) GetPrev() string                 { return "" }
func (f *qPlaceholder) GetSendSize() int64              { return 0 }
func (f *qPlaceholder) Allocate(int64) (int64, int64)   { return 0, 0 }
func (f *qPlaceholder) IsAllocated() bool               { return true }

type qmFile struct {
	name      string
	size      int64
	t         time.Time
	alloc     int64
	place     bool
	order     int
	done      bool
}

// qUncertain: see readiness in runW4Queue (one simulation at a time per process)
var qUncertain func(*qmGroup, time.Time) bool

type qmGroup struct {
	name       string
	tag        *TagCfg
	pending    []*qmFile
	completed  []string
	lastServed int // pop counter when last served
	readySince int // pop counter since which it has been continuously ready (-1 not ready)
	repushed   bool
}

func (s *Sim) runW4Queue() {
	sc := s.sc
	tags := sc.QueueTags
	qtags := make([]*queue.Tag, len(tags))
	pats := make([]*regexp.Regexp, len(tags))
	for i, t := range tags {
		ord := t.Order
		if ord == "alpha" {
			ord = sts.OrderAlpha
		}
		qtags[i] = &queue.Tag{Name: t.Pattern, Priority: t.Priority, Order: ord, ChunkSize: t.ChunkSize, LastDelay: t.LastDelay}
		if t.Pattern != "" {
			pats[i] = regexp.MustCompile(t.Pattern)
		}
	}
	groupRe := regexp.MustCompile(`^([^\.]*)`)
	tagger := func(group string) string {
		for i, t := range tags {
			if pats[i] != nil && (t.Pattern == group || pats[i].MatchString(group)) {
				return t.Pattern
			}
		}
		return ""
	}
	grouper := func(name string) string {
		m := groupRe.FindStringSubmatch(name)
		if len(m) > 1 && m[1] != "" && m[1] != name {
			return m[1]
		}
		return tagger(name)
	}
	tagOfGroup := func(group string) *TagCfg {
		tn := tagger(group)
		for i := range tags {
			if tags[i].Pattern == tn {
				return &tags[i]
			}
		}
		return nil
	}
	q := queue.NewTagged(qtags, tagger, grouper)
	var mu sync.Mutex
	groups := map[string]*qmGroup{}
	byName := map[string]*qmFile{}
	popCount := 0
	pushOrder := 0
	getGroup := func(name string) *qmGroup {
		gn := grouper(name)
		g := groups[gn]
		if g == nil {
			g = &qmGroup{name: gn, tag: tagOfGroup(gn), readySince: -1, lastServed: -1}
			groups[gn] = g
		}
		return g
	}
	lessF := func(order string, a, b *qmFile) bool {
		switch order {
		case "fifo":
			if !a.t.Equal(b.t) {
				return a.t.Before(b.t)
			}
			return a.name < b.name
		case "lifo":
			if !a.t.Equal(b.t) {
				return a.t.After(b.t)
			}
			return a.name < b.name
		case "alpha":
			return a.name < b.name
		}
		return a.order < b.order
	}
	headOf := func(g *qmGroup) *qmFile {
		var cand []*qmFile
		for _, f := range g.pending {
			if !f.done && !f.place {
				cand = append(cand, f)
			}
		}
		if len(cand) == 0 {
			return nil
		}
		sort.SliceStable(cand, func(i, j int) bool { return lessF(g.tag.Order, cand[i], cand[j]) })
		return cand[0]
	}
	// readiness: 1 ready, 0 not ready, 2 undetermined. The statement speaks of
	// a group's "only remaining file"; the queue withholds the LAST ENTRY of the
	// group's list, and that list can still hold entries which are not files to
	// send: files queued only to keep their place (placeholders) and the last
	// completely emitted file, kept as the group's place marker. When the one
	// remaining young file has such an entry behind it, the two readings differ;
	// the model then makes no demand either way.
	readiness := func(g *qmGroup, now time.Time) int {
		h := headOf(g)
		if h == nil || g.tag == nil {
			return 0
		}
		if g.tag.LastDelay > 0 {
			n := 0
			behind := false
			for _, f := range g.pending {
				switch {
				case !f.done && !f.place:
					n++
				case lessF(g.tag.Order, h, f):
					behind = true
				}
			}
			if n == 1 && now.Sub(h.t) < g.tag.LastDelay {
				if behind {
					return 2
				}
				return 0
			}
		}
		return 1
	}
	qUncertain = func(g *qmGroup, now time.Time) bool { return readiness(g, now) == 2 }
	ready := func(g *qmGroup, now time.Time) bool { return readiness(g, now) == 1 }
	refreshReady := func(now time.Time) {
		for _, g := range groups {
			if ready(g, now) {
				if g.readySince < 0 {
					g.readySince = popCount
				}
			} else {
				g.readySince = -1
			}
		}
	}
	var wg sync.WaitGroup
	alive := 2
	run := func(task int) {
		defer wg.Done()
		tn := &taskNode{id: task}
		k := 0
		for _, op := range sc.QueueOps {
			if op.Task != task {
				continue
			}
			k++
			switch op.Kind {
			case "sleep":
				time.Sleep(time.Duration(op.Dur) * time.Second)
			case "push":
				s.park(tn, "queue.push", fmt.Sprint(k), nil)
				now := time.Now()
				var batch []sts.Hashed
				mu.Lock()
				for _, f := range op.Files {
					h := qHashed{name: f.Name, size: f.Size, t: now.Add(-time.Duration(f.AgeS) * time.Second)}
					g := getGroup(f.Name)
					if g.tag == nil {
						continue
					}
					if old := byName[f.Name]; old != nil {
						// pushed again: starts over (the statement's guarantees about the
						// chain and the last-file delay are for names queued once)
						g.repushed = true
						for i, x := range g.pending {
							if x == old {
								g.pending = append(g.pending[:i:i], g.pending[i+1:]...)
								break
							}
						}
					}
					pushOrder++
					mf := &qmFile{name: f.Name, size: f.Size, t: h.t, place: f.Place, order: pushOrder}
					byName[f.Name] = mf
					g.pending = append(g.pending, mf)
					if f.Place {
						batch = append(batch, &qPlaceholder{h})
					} else {
						hh := h
						batch = append(batch, &hh)
					}
				}
				refreshReady(now)
				mu.Unlock()
				q.Push(batch)
				s.stat("q:push")
			case "pop":
				for i := 0; i < op.N; i++ {
					s.park(tn, "queue.pop", fmt.Sprintf("%d.%d", k, i), nil)
					now := time.Now()
					mu.Lock()
					refreshReady(now)
					mu.Unlock()
					c := q.Pop()
					s.stat("q:pop")
					mu.Lock()
					s.judgePop(c, groups, byName, grouper, headOf, ready, now, &popCount)
					refreshReady(now)
					mu.Unlock()
				}
			}
		}
		mu.Lock()
		alive--
		mu.Unlock()
		s.signalWake()
	}
	wg.Add(2)
	go run(0)
	go run(1)
	s.stepHooks = append(s.stepHooks, func() {
		mu.Lock()
		a := alive
		mu.Unlock()
		if a == 0 {
			s.ended = true
			s.settledFinal = true
		}
	})
	s.runLoop()
	s.inconclusive = !s.settledFinal
	s.finalOracles()
}

func (s *Sim) judgePop(c sts.Sendable, groups map[string]*qmGroup, byName map[string]*qmFile, grouper func(string) string,
	headOf func(*qmGroup) *qmFile, ready func(*qmGroup, time.Time) bool, now time.Time, popCount *int) {
	prop := s.sc.Prop
	var readyGroups []*qmGroup
	for _, g := range groups {
		if ready(g, now) {
			readyGroups = append(readyGroups, g)
		}
	}
	sort.Slice(readyGroups, func(i, j int) bool { return readyGroups[i].name < readyGroups[j].name })
	if c == nil {
		if len(readyGroups) > 0 {
			s.violate(prop, "pop-empty-while-ready", "Pop returned nothing although group %q has a chunk ready", readyGroups[0].name)
		}
		return
	}
	*popCount++
	g := groups[grouper(c.GetName())]
	f := byName[c.GetName()]
	if g == nil || f == nil || f.done || f.place {
		s.violate(prop, "pop-of-unpushed-file", "Pop returned a chunk of %s which is not pending", c.GetName())
		return
	}
	// strict priority
	for _, o := range readyGroups {
		if o.tag.Priority > g.tag.Priority {
			s.violate(prop, "lower-priority-first", "chunk of %s (group %q, priority %d) emitted while group %q (priority %d) had a chunk ready", c.GetName(), g.name, g.tag.Priority, o.name, o.tag.Priority)
		}
	}
	if !ready(g, now) && !qUncertain(g, now) && !g.repushed {
		s.violate(prop, "served-delayed-group", "chunk of %s emitted although its group's only remaining file is younger than the last-file delay", c.GetName())
	}
	// round robin among equal priority: a group that has been ready ever since
	// before g's previous service must have been served in between
	if g.lastServed >= 0 {
		for _, o := range readyGroups {
			if o == g || o.tag.Priority != g.tag.Priority {
				continue
			}
			if o.readySince >= 0 && o.readySince < g.lastServed && o.lastServed < g.lastServed {
				s.violate(prop, "round-robin-skipped-group", "group %q is served again (pops %d and %d) although group %q of the same priority has been ready all along and was last served at pop %d", g.name, g.lastServed, *popCount, o.name, o.lastServed)
			}
		}
	}
	g.lastServed = *popCount
	// order within the group
	if h := headOf(g); h != nil && h != f && g.tag.Order != "none" {
		s.violate(prop, "emitted-out-of-order", "chunk of %s emitted although %s comes first in order %s of group %q", f.name, h.name, g.tag.Order, g.name)
	}
	// tiling
	beg, l := c.GetSlice()
	chunk := g.tag.ChunkSize
	switch {
	case l <= 0:
		s.violate(prop, "empty-chunk", "empty chunk of %s", f.name)
	case beg != f.alloc:
		s.violate(prop, "chunks-not-contiguous", "chunk %s[%d:+%d] but next byte to emit is %d", f.name, beg, l, f.alloc)
	case chunk > 0 && l > chunk:
		s.violate(prop, "chunk-too-large", "chunk %s[%d:+%d] exceeds chunk size %d", f.name, beg, l, chunk)
	case beg+l > f.size:
		s.violate(prop, "chunk-beyond-file", "chunk %s[%d:+%d] beyond size %d", f.name, beg, l, f.size)
	}
	// predecessor
	prev := c.GetPrev()
	switch {
	case g.tag.Order == "none":
		if prev != "" {
			s.violate(prop, "prev-on-unordered-tag", "%s announces predecessor %s on an unordered tag", f.name, prev)
		}
	case prev == f.name:
		s.violate(prop, "prev-is-self", "%s names itself as predecessor", f.name)
	case prev != "":
		ok := false
		for _, cn := range g.completed {
			if cn == prev {
				ok = true
			}
		}
		for _, x := range g.pending {
			if x.place && x.name == prev {
				ok = true
			}
		}
		if !ok && !g.repushed {
			s.violate(prop, "prev-not-emitted", "%s announces predecessor %s which has neither been emitted completely nor queued as already sent in group %q", f.name, prev, g.name)
		}
	}
	f.alloc = beg + l
	if f.alloc >= f.size {
		f.done = true
		g.completed = append(g.completed, f.name)
	}
}

func genQueueScenario(prop string, seed uint64) *Scenario {
	g := &gen{r: rand.New(rand.NewPCG(seed, 0x9e))}
	sc := &Scenario{Prop: prop, Mode: "w4queue", Seed: seed}
	ep, _ := time.Parse(time.RFC3339, epochs[g.n(len(epochs))])
	sc.EpochUnix = ep.Unix()
	sc.MaxSteps = 6000
	sc.MaxFake = 48 * time.Hour
	sc.TimeWeight = 1
	ntags := 1 + g.n(4)
	orders := []string{"fifo", "lifo", "none", "alpha"}
	stems := []string{"aa", "ab", "b", "c", "d", "e"}
	sc.QueueTags = []TagCfg{{Pattern: "", Priority: g.n(3), Order: orders[g.n(4)], ChunkSize: int64(g.pick(0, 50, 100, 1000))}}
	for i := 1; i < ntags; i++ {
		t := TagCfg{Pattern: "^" + stems[i], Priority: g.n(3), Order: orders[g.n(4)], ChunkSize: int64(g.pick(0, 10, 64, 500))}
		if g.pct(30) {
			t.LastDelay = time.Duration(g.pick(30, 600)) * time.Second
		}
		sc.QueueTags = append(sc.QueueTags, t)
	}
	if g.pct(20) {
		sc.QueueTags[0].LastDelay = 60 * time.Second
	}
	nops := 6 + g.n(30)
	serial := 0
	used := map[string]bool{}
	for i := 0; i < nops; i++ {
		switch g.n(6) {
		case 0, 1, 2:
			op := QueueOp{Task: 0, Kind: "push"}
			for k := 0; k < 1+g.n(5); k++ {
				serial++
				name := fmt.Sprintf("%s.%03d", stems[g.n(len(stems))], g.n(40))
				if g.pct(10) && len(used) > 0 {
					for n := range used {
						name = n // the same name pushed again
						break
					}
				}
				used[name] = true
				age := int64(g.pick(0, 5, 100, 100, 3600, 7200))
				op.Files = append(op.Files, QFile{Name: name, Size: int64(1 + g.n(300)), AgeS: age, Place: g.pct(7)})
			}
			sc.QueueOps = append(sc.QueueOps, op)
		case 3, 4:
			sc.QueueOps = append(sc.QueueOps, QueueOp{Task: 1, Kind: "pop", N: 1 + g.n(8)})
		case 5:
			sc.QueueOps = append(sc.QueueOps, QueueOp{Task: g.n(2), Kind: "sleep", Dur: int64(g.pick(1, 20, 45, 700))})
		}
	}
	sc.QueueOps = append(sc.QueueOps, QueueOp{Task: 1, Kind: "sleep", Dur: 1000})
	sc.QueueOps = append(sc.QueueOps, QueueOp{Task: 1, Kind: "pop", N: 40})
	return sc
}

func init() {
	modes["w4queue"] = func(s *Sim) { s.runW4Queue() }
	generators["C12"] = func(seed uint64, tier string) []*Scenario { return one(genQueueScenario("C12", seed)) }
}
