package main

// The outside world: source files (written, replaced, touched by the
// environment), operator actions, and the environment script.

import (
	"fmt"
	"math/rand/v2"
	"os"
	"path/filepath"
	"sort"
	"strings"
	"time"
)

type FileSpec struct {
	Name string `json:"name"`
	Size int64  `json:"size"`
	Seed uint64 `json:"seed"`
	Age  int64  `json:"age_s"` // mtime = time of writing - Age seconds
	// Link: "" regular file; "abs" / "rel": Name is a symbolic link (absolute /
	// relative target path) to a regular file with this content that lies
	// outside the outgoing directory
	Link string `json:"link,omitempty"`
}

type envAction struct {
	Kind string        `json:"kind"`
	At   time.Duration `json:"at"`
	Name string        `json:"name,omitempty"`
	Size int64         `json:"size,omitempty"`
	Seed uint64        `json:"seed,omitempty"`
	Age  int64         `json:"age_s,omitempty"`
	Mode string        `json:"mode,omitempty"`
	N    int           `json:"n,omitempty"`
	arg  string
	n    int
	done bool
}

type World struct {
	s      *Sim
	outDir string
}

func genContent(seed uint64, size int64) []byte {
	r := rand.New(rand.NewPCG(seed, 77))
	b := make([]byte, size)
	for i := range b {
		if i%8 == 0 {
			v := r.Uint64()
			for j := 0; j < 8 && i+j < len(b); j++ {
				b[i+j] = byte(v >> (8 * j))
			}
		}
	}
	return b
}

func (w *World) path(name string) string { return filepath.Join(w.outDir, name) }

func (w *World) current(name string) *srcVersion {
	vs := w.s.ob.versions[name]
	if len(vs) == 0 {
		return nil
	}
	v := vs[len(vs)-1]
	if v.GoneStep >= 0 {
		return nil
	}
	return v
}

func (w *World) record(name string, data []byte, mtime time.Time, seed uint64) {
	o := w.s.ob
	if cur := w.current(name); cur != nil {
		cur.GoneStep = w.s.step
	}
	o.versions[name] = append(o.versions[name], &srcVersion{Name: name, MD5: bytesMD5(data), Size: int64(len(data)), Mtime: mtime, Step: w.s.step, GoneStep: -1, Seed: seed, FakeAt: time.Since(w.s.epoch)})
}

// write creates or atomically replaces a source file.
func (w *World) write(f FileSpec, atomic bool) {
	data := genContent(f.Seed, f.Size)
	p := w.path(f.Name)
	os.MkdirAll(filepath.Dir(p), 0755)
	mt := time.Now().Add(-time.Duration(f.Age) * time.Second)
	if f.Link != "" {
		target := filepath.Join(w.s.ws, "linktargets", strings.ReplaceAll(f.Name, "/", "__"))
		os.MkdirAll(filepath.Dir(target), 0755)
		if err := os.WriteFile(target, data, 0644); err != nil {
			w.s.troublef("write link target: %v", err)
		}
		os.Chtimes(target, mt, mt)
		to := target
		if f.Link == "rel" {
			if rel, err := filepath.Rel(filepath.Dir(p), target); err == nil {
				to = rel
			}
		}
		os.Remove(p)
		if err := os.Symlink(to, p); err != nil {
			w.s.troublef("symlink: %v", err)
		}
		if err := lutimes(p, time.Now()); err != nil {
			w.s.troublef("lutimes: %v", err)
		}
		w.s.stat("env:symlink-" + f.Link)
		w.record(f.Name, data, mt, f.Seed)
		return
	}
	if atomic {
		tmp := filepath.Join(w.s.ws, "tmp-src")
		os.WriteFile(tmp, data, 0644)
		os.Chtimes(tmp, mt, mt)
		if err := os.Rename(tmp, p); err != nil {
			w.s.troublef("rename source: %v", err)
		}
	} else {
		if err := os.WriteFile(p, data, 0644); err != nil {
			w.s.troublef("write source: %v", err)
		}
		os.Chtimes(p, mt, mt)
	}
	w.record(f.Name, data, mt, f.Seed)
}

func (w *World) touch(name string, age int64) {
	cur := w.current(name)
	if cur == nil {
		return
	}
	mt := time.Now().Add(-time.Duration(age) * time.Second)
	os.Chtimes(w.path(name), mt, mt)
	cur.GoneStep = w.s.step
	nv := *cur
	nv.Mtime = mt
	nv.Step = w.s.step
	nv.GoneStep = -1
	nv.FakeAt = time.Since(w.s.epoch)
	w.s.ob.versions[name] = append(w.s.ob.versions[name], &nv)
}

func (w *World) remove(name string) {
	if cur := w.current(name); cur != nil {
		cur.GoneStep = w.s.step
	}
	os.Remove(w.path(name))
}

// noteVanished records that the SUT itself removed a source file.
func (w *World) noteVanished(name string) {
	if cur := w.current(name); cur != nil {
		cur.GoneStep = w.s.step
	}
}

// ---------------------------------------------------------------- env script

func (s *Sim) addEnv(a *envAction) {
	s.mu.Lock()
	s.envDue = append(s.envDue, a)
	s.mu.Unlock()
}

func (s *Sim) pendingEnv() []*envAction {
	s.mu.Lock()
	defer s.mu.Unlock()
	var out []*envAction
	for _, a := range s.envDue {
		if !a.done {
			out = append(out, a)
		}
	}
	return out
}

func (s *Sim) nextEnvHorizon() time.Duration {
	now := time.Since(s.epoch)
	h := time.Hour
	if rem := s.sc.MaxFake - now; rem < h {
		h = rem
	}
	for _, a := range s.pendingEnv() {
		if d := a.At - now; d < h {
			h = d
		}
	}
	if h < time.Millisecond {
		h = time.Millisecond
	}
	return h
}

func (s *Sim) envEvents() []event {
	now := time.Since(s.epoch)
	var evs []event
	pend := s.pendingEnv()
	sort.SliceStable(pend, func(i, j int) bool { return pend[i].At < pend[j].At })
	for i, a := range pend {
		if a.At > now {
			continue
		}
		a := a
		evs = append(evs, event{label: fmt.Sprintf("env %02d %s %s", i, a.Kind, a.Name), weight: 30, do: func() { s.doEnv(a) }})
	}
	return evs
}

func (s *Sim) doEnv(a *envAction) {
	a.done = true
	s.stat("env:" + a.Kind)
	w := s.world
	switch a.Kind {
	case "boot-receiver":
		s.bootReceiver(a.arg, a.n)
	case "boot-sender":
		s.bootSender(a.arg, a.n)
		if v, ok := s.sc.Extra["second_crash_at"]; ok && a.n == 1 {
			if f, ok := v.(float64); ok {
				s.sendCrashAt, s.sendCrashInc, s.sendCrashLabel = int(f), 1, ""
			}
		}
	case "write", "replace":
		w.write(FileSpec{Name: a.Name, Size: a.Size, Seed: a.Seed, Age: a.Age}, true)
	case "rewrite": // in place, non atomic
		w.write(FileSpec{Name: a.Name, Size: a.Size, Seed: a.Seed, Age: a.Age}, false)
	case "touch":
		w.touch(a.Name, a.Age)
	case "delete":
		if s.envDeleted == nil {
			s.envDeleted = map[string]bool{}
		}
		s.envDeleted[a.Name] = true
		w.remove(a.Name)
	case "stop":
		if s.send != nil {
			s.requestStop(s.send, a.Mode == "graceful")
			s.ob.onStopRequested(s.send)
		}
	case "crash-receiver":
		s.crashReceiver("env", s.sc.DownTime)
	case "crash-sender":
		s.crashSender("env", s.sc.DownTime)
	case "clean":
		s.operator("clean", a.Mode)
	case "prune":
		s.operator("prune", a.Mode)
	case "corrupt-stage":
		s.corruptStage(a)
	case "age-stage":
		s.ageStage(a)
	case "noop":
	case "disable":
		os.WriteFile(filepath.Join(w.outDir, ".disabled"), []byte("x"), 0644)
	case "enable":
		os.Remove(filepath.Join(w.outDir, ".disabled"))
	default:
		if s.envExt != nil && s.envExt(a) {
			return
		}
		s.troublef("unknown env action %s", a.Kind)
	}
}

// corruptStage overwrites bytes of a staged file of the live receiver.
func (s *Sim) corruptStage(a *envAction) {
	n := s.recv
	if n == nil {
		return
	}
	var cands []string
	for _, f := range s.listStage(n) {
		if (f.Ext == ".part" || f.Ext == ".full") && f.Size > 0 {
			cands = append(cands, f.Rel)
		}
	}
	if len(cands) == 0 {
		return
	}
	sort.Strings(cands)
	rel := cands[int(a.Seed%uint64(len(cands)))]
	p := filepath.Join(n.stageDir(), rel)
	fh, err := os.OpenFile(p, os.O_RDWR, 0)
	if err != nil {
		return
	}
	defer fh.Close()
	info, _ := fh.Stat()
	off := int64(a.Seed>>8) % info.Size()
	b := make([]byte, 1)
	fh.ReadAt(b, off)
	b[0] ^= 0x55
	fh.WriteAt(b, off)
	s.stat("fault:corrupt-stage")
	s.ob.corrupted = append(s.ob.corrupted, fmt.Sprintf("%s@%d step=%d", rel, off, s.step))
	s.noteFault()
}

// ageStage pushes the mtimes of staged entries into the past.
func (s *Sim) ageStage(a *envAction) {
	n := s.recv
	if n == nil {
		return
	}
	s.restamp(n)
	back := time.Duration(a.Age) * time.Second
	filepath.Walk(n.stageDir(), func(p string, info os.FileInfo, err error) error {
		if err != nil {
			return nil
		}
		t := info.ModTime().Add(-back)
		os.Chtimes(p, t, t)
		return nil
	})
}

func (s *Sim) noteFault() {
	s.mu.Lock()
	s.lastFaultStep = s.step
	s.lastFaultTime = time.Now()
	s.nFaults++
	s.mu.Unlock()
}
