package main

// C05, "after the in-memory record of the delivery has aged out and is known
// only from the log": the receiver drops delivered files from its in-memory
// cache when the cache reaches a multiple of 1000 entries and the entries were
// logged more than 24 h ago. World W2: a scripted peer delivers a little less
// than 1000 one-to-three-byte files, waits 25 h, delivers the few that make
// the cache reach 1000 (the ageing pass runs), and then retransmits files of
// the first batch the way a sender does: asks first (poll, or "which of these
// parts do you have"), then sends - or sends a late part without asking.

import (
	"fmt"
	"math/rand/v2"
	"time"
)

func genC05Age(seed uint64) *Scenario {
	sc, _ := baseW2("C05", seed)
	g := &gen{r: rand.New(rand.NewPCG(seed, 0x505a))}
	sc.Extra = map[string]any{"c05age": true}
	sc.MaxFake = 6 * 24 * time.Hour
	sc.Settle = time.Minute
	sc.MaxSteps = 60000
	sc.MaxInFlight = 1 + g.n(2)
	sc.Hot = nil
	sc.NetFinePct = 0 // thousands of parts: move whole requests
	sc.NetWindow = 0
	n1 := 990 + g.n(10)
	extra := 1000 - n1 + g.n(4)
	for i := 0; i < n1+extra; i++ {
		sc.PeerFiles = append(sc.PeerFiles, PeerFile{Name: fmt.Sprintf("bulk/f%04d.dat", i), Size: int64(1 + g.n(3)), Seed: g.u64(), TimeS: int64(5000 - i)})
	}
	sc.Peer = append(sc.Peer, PeerOp{Kind: "poll", Source: "src1", Names: []string{"nothing"}, Sync: true})
	send := func(from, to, per int) {
		for i := from; i < to; i += per {
			op := PeerOp{Kind: "data", Source: "src1"}
			for j := i; j < i+per && j < to; j++ {
				op.Parts = append(op.Parts, PeerPart{j, 0, sc.PeerFiles[j].Size})
			}
			sc.Peer = append(sc.Peer, op)
		}
	}
	send(0, n1, g.pick(100, 200, 500))
	sc.Peer = append(sc.Peer, PeerOp{Kind: "settle", Sync: true})
	if g.pct(30) {
		// the cache is rebuilt from the log after a restart (entries "loaded", not "logged")
		sc.Peer = append(sc.Peer, PeerOp{Kind: "crash", Sync: true})
	}
	sc.Peer = append(sc.Peer, PeerOp{Kind: "wait", Dur: 25*time.Hour + time.Duration(g.n(3600))*time.Second, Sync: true})
	send(n1, n1+extra, 1+g.n(3))
	sc.Peer = append(sc.Peer, PeerOp{Kind: "settle", Sync: true})
	sc.Peer = append(sc.Peer, PeerOp{Kind: "wait", Dur: 2 * time.Second, Sync: true})
	// retransmissions of delivered files of the first batch
	for k := 0; k < 2+g.n(3); k++ {
		x := g.n(n1)
		f := sc.PeerFiles[x]
		whole := PeerOp{Kind: "data", Source: "src1", Parts: []PeerPart{{x, 0, f.Size}}}
		asked := whole
		asked.Sync = true // sent only once the answer to the question is in
		switch g.n(4) {
		case 0: // asks by name first, like the validator and the start-up recovery do
			sc.Peer = append(sc.Peer, PeerOp{Kind: "poll", Source: "src1", Names: []string{f.Name}, Sync: true}, asked)
		case 1: // asks about the parts first, like the recovery of a failed request does
			sc.Peer = append(sc.Peer, PeerOp{Kind: "recovery", Source: "src1", Parts: whole.Parts, Sync: true}, asked)
		case 2: // a late part of a request that was believed lost
			if f.Size > 1 {
				sc.Peer = append(sc.Peer, PeerOp{Kind: "data", Source: "src1", Parts: []PeerPart{{x, 0, 1}}})
			} else {
				sc.Peer = append(sc.Peer, whole)
			}
		case 3: // the whole file again without asking
			sc.Peer = append(sc.Peer, whole)
		}
		if g.pct(50) {
			sc.Peer = append(sc.Peer, PeerOp{Kind: "settle", Sync: true})
		}
	}
	sc.Peer = append(sc.Peer, PeerOp{Kind: "settle", Sync: true})
	sc.Peer = append(sc.Peer, PeerOp{Kind: "poll", Source: "src1", Names: []string{sc.PeerFiles[0].Name, sc.PeerFiles[n1].Name}, Sync: true})
	sc.Peer = append(sc.Peer, PeerOp{Kind: "wait", Dur: 30 * time.Second, Sync: true})
	return sc
}

// agedOut: names whose delivery the receiver's in-memory cache has dropped
// (log message "Removed from cache") and not re-read from the log since
// ("Cached from log"). Kept outside Sim's struct literal: one simulation runs
// at a time per process.
var agedOut = map[*Sim]map[string]bool{}

func (s *Sim) noteCacheAged(name string, out bool) {
	s.mu.Lock()
	defer s.mu.Unlock()
	m := agedOut[s]
	if m == nil {
		for k := range agedOut {
			delete(agedOut, k) // earlier simulations of this process
		}
		m = map[string]bool{}
		agedOut[s] = m
	}
	if out {
		m[name] = true
		s.stats["probe:recv-cache-aged-out"]++
	} else if m[name] {
		delete(m, name)
		s.stats["probe:recv-cache-reread-from-log"]++
	}
}

// askedSinceAged: names the receiver was asked about (poll, or "which of these
// parts do you have") while their delivery was known only from the log.
var askedSinceAged = map[*Sim]map[string]bool{}

func (s *Sim) noteAsked(name string) {
	s.mu.Lock()
	defer s.mu.Unlock()
	if !agedOut[s][name] {
		return
	}
	m := askedSinceAged[s]
	if m == nil {
		for k := range askedSinceAged {
			delete(askedSinceAged, k)
		}
		m = map[string]bool{}
		askedSinceAged[s] = m
	}
	m[name] = true
}

// deliveryKnownOnlyFromLog: the receiver has dropped its in-memory record of
// this delivery, nothing has made it read the log again since, and it has not
// been asked about the file either (a question must make it read the log).
func (s *Sim) deliveryKnownOnlyFromLog(name string) bool {
	s.mu.Lock()
	defer s.mu.Unlock()
	return agedOut[s][name] && !askedSinceAged[s][name]
}
