package main

// noRequestFailed: no request of the sender failed in this run (scheduler
// delays alone can add up to a request time-out, after which retransmission
// is legitimate).
func (s *Sim) noRequestFailed() bool {
	for _, t := range s.ob.tx {
		if t.Err != "" || !t.Done {
			return false
		}
	}
	for _, p := range s.ob.polls {
		if p.Err != "" {
			return false
		}
	}
	for _, r := range s.ob.txrecs {
		if r.Err != "" {
			return false
		}
	}
	return len(s.ob.txrecs) == 0
}
