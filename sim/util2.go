package main

import (
	"fmt"

	"github.com/arm-doe/sts"
)

// noRequestFailed: no request of the sender failed in this run (scheduler
// delays alone can add up to a request time-out, after which retransmission
// is legitimate).
func (s *Sim) noRequestFailed() bool {
	for _, t := range s.ob.tx {
		if t.Err != "" || !t.Done {
			return false
		}
	}
	// a polling give-up (the receiver had not validated the file yet when the
	// configured number of attempts was used up) makes the sender send again
	notFound := map[string]int{}
	attempts := s.sc.Send.PollAttempts
	if attempts < 1 {
		attempts = 1
	}
	for _, p := range s.ob.polls {
		if p.Err != "" {
			return false
		}
		for name, a := range p.Answer {
			if a == sts.ConfirmNone {
				notFound[fmt.Sprintf("%d/%s", p.Inc, name)]++
				if notFound[fmt.Sprintf("%d/%s", p.Inc, name)] >= attempts {
					return false
				}
			}
		}
	}
	for _, r := range s.ob.txrecs {
		if r.Err != "" {
			return false
		}
	}
	return len(s.ob.txrecs) == 0
}
