#!/usr/bin/env python3
"""Writes MANIFEST.json from the table below (run after changing the set of checks)."""
import json, subprocess

ENGINE = "sts-dsim"

TXT = {
 "C01": ("exploration", "§8 C01",
         "Seeded search over simulated end-to-end runs (real sender + real receiver, simulated network/clock/scheduler/crashes): every file consumed from the final directory must be byte-identical to a source version whose MD5 the sender announced and be covered by a receive-log record; body bytes flipped in transit, staged files overwritten, sources rewritten while queued/streamed, duplicates, cuts and restarts of both sides are injected. Sampling, not proof.",
         "W1 end-to-end simulation + arrival oracle against the source-version history"),
 "C02": ("exploration", "§8 C02",
         "Seeded search; at every Store.Remove and Cache.Done of the real sender the harness hashes the source file and requires a positive poll answer plus a durable validated copy of exactly that content on the receiving side; every positive status answer of the receiver is checked against its disk. Files are replaced/rewritten/touched while queued, in flight and between send and confirmation; both sides restart.",
         "W1 simulation + release oracle at the delete/done call sites"),
 "C03": ("exploration", "§8 C03",
         "Bounded liveness by simulation: after the last injected fault (cuts, lost answers, stalls, 206, refused, corruption, crashes of either side) the system must settle - every eligible file delivered, done in the queue cache, nothing undelivered staged - within 3 h of fault-free simulated time; otherwise the stuck file's location is reported.",
         "W1 simulation with a finite fault phase, then a fault-free phase on the fake clock"),
 "C04": ("exploration", "§8 C04",
         "Seeded search over ordered groups (fifo/lifo, several tags, 1-4 threads, faults, restarts): at each arrival the announced predecessor must have arrived or been logged, and every file of the group that precedes it in the configured order and was queued before its first emission must have arrived earlier.",
         "W1 simulation + order oracle at arrival; receiver clause (chains, forests, cycles, log-only roots) in W2 with a scripted peer"),
 "C05": ("exploration", "§8 C05",
         "Seeded search with lost answers, stalls, poll give-ups and restarts of both sides: the harness consumes the final directory, so a second delivery of a (name, hash) shows as a second arrival; receive-log records per (name, hash) are counted (one extra only for a crash between logging and moving).",
         "W1 simulation + exactly-once oracle over arrivals and the receive log; W2 scripts for retransmissions after a receiver restart and after the 1000-entry cache ageing"),
 "C06": ("fault_enumeration", "§8 C06",
         "For each generated arrival history the run is first executed crash-free to count the occurrences of every labelled durable step (H1 crash points in Receive / writeJSON / process / putFileAway / Move / Recover); it is then re-executed once per sampled (quick) or every (thorough) occurrence with the receiver killed there (optionally a second kill during recovery, optionally a torn companion temp file), restarted on the crash image, and judged: nothing unvalidated delivered, nothing delivered twice, partial listings only claim bytes really staged, everything delivered within the liveness bound.",
         "crash-point enumeration inside the W1 simulation"),
 "C07": ("fault_enumeration", "§8 C07",
         "For each scenario the number of externally visible sender actions of a crash-free run is counted; the scenario is re-executed with the sender killed before action k (sampled in quick, all up to 400 in thorough) and between writing and renaming the queue cache, restarted on the image, and judged: no held range and no completely held file is transmitted again, resumed files send exactly the missing ranges with their stored predecessor, nothing deleted unconfirmed, everything delivered exactly once within the bound.",
         "sender crash-index enumeration inside the W1 simulation"),
 "C08": ("exploration", "§8 C08",
         "Seeded search with cuts before/after the k-th recorded part, lost answers, stalls and real receiver errors on the k-th part (206 + count): a part the receiver acknowledged (200, 206 count, data-recovery answer) must not be transmitted again in the same send epoch, and a file is written to the sent log only when every byte of its send ranges was acknowledged.",
         "W1 simulation + per-part acknowledgement bookkeeping"),
 "C09": ("exploration", "§8 C09",
         "Seeded search in W2: a scripted peer sends hand-encoded parts (disjoint, adjacent, identical, nested, overlapping, any order, truncated bodies, two versions of one name) on up to 4 interleaved connections; every claim of the receiver (partials listing, part count, completeness) is judged against the staged bytes and the known content; acknowledged parts must stay on record.",
         "W2 simulation (real receiver, scripted peer) + content-based claim oracle"),
 "C10": ("exploration", "§8 C10",
         "Seeded search in W1 (real scanner/retry/recovery produce the Push/Pop interleavings, re-pushes, placeholders, resumed files): at every Pop the file must be first of its group in the tag's order among what is queued, and the announced predecessor must be a completely emitted or already-sent file of the group (none for unordered tags / the first file, never itself; resumed files keep theirs).",
         "W1 simulation + queue reference model at Push/Pop"),
 "C11": ("exploration", "§8 C11",
         "Seeded search with sizes at 1, chunk±1, bin±1 and multiples, chunk > bin, resumed files with gaps: chunks must be non-empty, contiguous, within chunk size and tile exactly [0,size) or the missing ranges; payloads stay within bin + 10 %; fault-free runs transmit every byte exactly once.",
         "W1 simulation + tiling model"),
 "C12": ("exploration", "§8 C12",
         "Seeded search in W4: the real queue.Tagged under a pusher and a popper task on the fake clock; every Pop is judged against a reference model of ready groups: strict priority, rotation among equal priority, last-file delay, never empty while something is ready.",
         "W4 component simulation of queue.Tagged + reference model"),
 "C13": ("exploration", "§8 C13",
         "Seeded search in W1 over the real HTTP path with 1-byte to unlimited delivery grants, gzip 0-9, unicode / space / ':' / '\\\\' names: every part the receiver records must carry a descriptor the sender encoded (to the nanosecond) and exactly the bytes the encoder read; truncated requests (cuts) must not record short parts.",
         "W1 simulation + encoder/decoder comparison per part; W2 scripted peer sending every request shape over a fragmenting connection"),
 "C14": ("exploration", "§8 C14",
         "Seeded search in W2 with a hostile but authorised peer: traversal fragments in part name, rename target, predecessor, polled names, source, separator header and static paths, with and without an allow-list; after deferred effects (finalisation, cleaner) the sandbox outside the directories a request may use must be unchanged and no answer may contain sentinel content.",
         "W2 simulation + sandbox snapshot diff"),
 "C15": ("exploration", "§8 C15",
         "Seeded search in W2 through the real standardValidator: wrong/empty/case-differing/metacharacter sources and keys in header or query on every validated route must be refused (403/400) with the receiver's trees unchanged and authorised probes answering as before; after a crash with staged state, requests delivered at every gate of start-up recovery must not reach the staging area before Recover finished.",
         "W2 simulation + tree/probe comparison + recovery-window monitor"),
 "C16": ("fault_enumeration", "§8 C16",
         "For each scenario the stop request (graceful and immediate, plus the one-shot stop right after start) is placed at sampled (quick) or all (thorough, <=150) indices of the sender's action sequence: the sender must exit within the bound (a panic or a hang is a violation), positive verdicts must be on disk in the queue cache, and fault-free graceful stops deliver everything the scans found.",
         "stop-position enumeration inside the W1 simulation"),
 "C17": ("exploration", "§8 C17",
         "Seeded search in W1 over trees with nested/hidden directories, lock files, zero-length files, the disable marker coming and going, include/ignore sets, a non-HTTP tag, minimum ages on both sides of each file's age, and files appearing / rewritten / touched / replaced between and during scans: every file a scan returns or the sender announces must be eligible under an independent statement of the rules, announced versions must have existed, ineligible files are never transmitted or removed, unchanged versions are not picked up twice, and every eligible final version arrives.",
         "W1 simulation + independent eligibility model (both directions: scanned => eligible, eligible => scanned and delivered within the bound)"),
 "C20": ("exploration", "§8 C20",
         "Seeded search in W2: staging contents of every kind (plain partials, partial of a NEW version of a delivered name, late duplicate of a delivered file, held file, complete-but-unvalidated file, partial with a gap) are produced through the real receive protocol, aged to either side of 24 h, and cleaned by the operator route, prune and the 30-minute timer at tape-chosen moments (with crashes in between); the staging tree is diffed across every cleaning pass - removed partials/companions must belong to a delivered or logged (name, hash), removed directories must have been empty and old enough - and the interrupted transfers must complete afterwards without any byte being sent twice.",
         "W2 simulation + staging-tree diff across cleaning passes"),
 "C18": ("exploration", "§8 C18",
         "Seeded search in W4: the real log.FileIO under 1-4 interleaved caller tasks on a fake clock crossing midnights and month ends; look-ups and replays are judged against a record-list model (exact name and hash, days the window touches) and histories of <=40 operations are checked for linearizability with porcupine.",
         "W4 component simulation of log.FileIO + record-list model + porcupine"),
}

NOTE = ("Trusted: the Go toolchain (go1.26.8 testing/synctest), the harness (scheduler, network, decorators, oracles) and the real file system; "
        "crash = process kill; interleavings at gate granularity; map-range order neutralised by a build overlay; sampling gives evidence, not proof.")

NA = [
 {"property_id": "C19", "reason": "pure function of the configuration document (inheritance, explicit false, JSON round trip): no schedule, clock, fault or I/O to simulate; generating configurations would be input generation, not this technique (DESIGN.md §9)"},
]
PENDING = {}


def main():
    commits = subprocess.run(["git", "-C", "/repo", "log", "--format=%h %s"], capture_output=True, text=True).stdout.splitlines()
    hooks = [c.split()[0] for c in commits if c.split(" ", 1)[1].startswith("verif hook")]
    checks = []
    for pid in sorted(TXT):
        cat, ref, text, tech = TXT[pid]
        checks.append({
            "property_id": pid,
            "quick_cmd": "./check %s quick" % pid,
            "thorough_cmd": "./check %s thorough" % pid,
            "evidence_file": "/verif/evidence/%s.json" % pid,
            "replay_cmd_template": "./check %s --replay {path}" % pid,
            "engine": ENGINE,
            "level_claimed": {"category": cat, "text": text, "design_ref": "DESIGN.md " + ref},
            "level_note": NOTE,
            "technique": "deterministic simulation with fault injection: " + tech,
        })
    na = list(NA) + [{"property_id": k, "reason": v} for k, v in sorted(PENDING.items()) if k not in TXT]
    m = {
        "version": 1,
        "setup_cmd": "./check build",
        "hooks": {
            "guard": "verif",
            "enable": "go1.26.8 test -c -tags verif -overlay <generated: /verif/sim/*.go into package main, sorted map ranges> -modfile <go.mod + porcupine> ./main  (done by ./check)",
            "baseline_off_cmd": "cd /repo && GOFLAGS=-mod=mod GOPROXY=off go test -vet=off -count=1 ./...",
            "source_commits": hooks,
            "add_only": True,
        },
        "engines": [{"name": ENGINE, "path": "/verif/sim", "serves_properties": sorted(TXT),
                     "kind_free_text": "whole-system deterministic simulator for sts: real sender/receiver code in one process inside a testing/synctest bubble, seeded scheduler over gates, granted-bytes network, fake clock, crash images, scripted peer, component drivers"}],
        "checks": checks,
        "notes": "Every check: exit 0 held / exit 1 + VIOLATION line / exit 2 harness trouble. Known findings in known_findings.json are printed as KNOWN-FINDING and do not fail the check. VERIF_SEED selects the seed (default 20260922). ./check selftest-determinism runs the determinism self-test.",
        "not_applicable": na,
    }
    json.dump(m, open("/verif/MANIFEST.json", "w"), indent=1)
    print("checks:", len(checks), "not_applicable:", [x["property_id"] for x in na], "hooks:", hooks)


if __name__ == "__main__":
    main()
