"""Per-property run counts / budgets and evidence texts for runner.py."""

W1_COMPONENTS = {
    "real": ["sts.NewConf/InitPaths on generated YAML", "main.clientApp.init + client.Broker (scanner, queue, binner, senders, tracker, validator, retry)",
             "store.Local, cache.JSON, queue.Tagged, payload.Bin, log.FileIO, http.Client", "net/http client and server (HTTP/1.1, chunked, gzip)",
             "main.serverApp.init + http.Server.Serve routes + stage.Stage (24 validators, finalizer, cleaner, Recover)", "real file system (tmpfs)"],
    "simulated": ["network (granted-bytes connections, cuts, flips, stalls, lost answers, refused)", "clock and timers (testing/synctest fake clock)",
                  "goroutine interleaving at gates (seeded scheduler)", "process crash/restart (durable-tree image + fencing)", "environment (source files, operator)"],
    "stubbed": ["S3 exporter, SQS dispatcher, Postgres client manager, TLS, HTTP/3 (not run)"],
}

ASSUME = [
    "crash = process kill: every completed system call survives (no power-loss model)",
    "interleavings explored at the granularity of gates (lock-protected sections) and network bytes",
    "Go select/map-iteration randomness is neutralised (sorted map ranges via build overlay), not explored",
    "one clock for both parties; forward jumps only",
]


def any_progress(r, st):
    return r.get("steps", 0) > 20 and st.get("arrival", 0) > 0


def faulty_progress(r, st):
    return any_progress(r, st)


def mk(level, rule, quick, thorough, nontrivial=any_progress, components=W1_COMPONENTS, assumptions=ASSUME):
    return {"level": level, "rule": rule, "quick": quick, "thorough": thorough, "nontrivial": nontrivial,
            "components": components, "assumptions": assumptions}


RULE_W1 = ("each evaluation is one simulated end-to-end run (scenario = config + file set + environment script + fault/crash directives, "
           "drawn from VERIF_SEED; schedule = tape of choices among enabled gates / connection deliveries / env actions / time steps). "
           "distinct = distinct decision-log hash; non-trivial = the run took >20 scheduler steps and delivered at least one file")

PROPS = {
    # prop: (runs, per-worker wall budget seconds)
    "C01": mk("exploration", RULE_W1, (1600, 45), (40000, 900)),
    "C02": mk("exploration", RULE_W1, (1600, 45), (40000, 900)),
    "C03": mk("exploration", RULE_W1, (1200, 50), (30000, 900)),
    "C05": mk("exploration", RULE_W1, (1600, 45), (40000, 900)),
}
