"""Per-property run counts / budgets and evidence texts for runner.py."""

W1_COMPONENTS = {
    "real": ["sts.NewConf/InitPaths on generated YAML", "main.clientApp.init + client.Broker (scanner, queue, binner, senders, tracker, validator, retry)",
             "store.Local, cache.JSON, queue.Tagged, payload.Bin, log.FileIO, http.Client", "net/http client and server (HTTP/1.1, chunked, gzip)",
             "main.serverApp.init + http.Server.Serve routes + stage.Stage (24 validators, finalizer, cleaner, Recover)", "real file system (tmpfs)"],
    "simulated": ["network (granted-bytes connections, cuts, flips, stalls, lost answers, refused)", "clock and timers (testing/synctest fake clock)",
                  "goroutine interleaving at gates (seeded scheduler)", "process crash/restart (durable-tree image + fencing)", "environment (source files, operator)"],
    "stubbed": ["S3 exporter, SQS dispatcher, Postgres client manager, TLS, HTTP/3 (not run)"],
}

ASSUME = [
    "crash = process kill: every completed system call survives (no power-loss model)",
    "interleavings explored at the granularity of gates (lock-protected sections) and network bytes",
    "Go select/map-iteration randomness is neutralised (sorted map ranges via build overlay), not explored",
    "one clock for both parties; forward jumps only",
]


def any_progress(r, st):
    return r.get("steps", 0) > 20 and st.get("arrival", 0) > 0


def faulty_progress(r, st):
    return any_progress(r, st)


def mk(level, rule, quick, thorough, nontrivial=any_progress, components=W1_COMPONENTS, assumptions=ASSUME):
    return {"level": level, "rule": rule, "quick": quick, "thorough": thorough, "nontrivial": nontrivial,
            "components": components, "assumptions": assumptions}


RULE_W1 = ("each evaluation is one simulated end-to-end run (scenario = config + file set + environment script + fault/crash directives, "
           "drawn from VERIF_SEED; schedule = tape of choices among enabled gates / connection deliveries / env actions / time steps). "
           "distinct = distinct decision-log hash; non-trivial = the run took >20 scheduler steps and delivered at least one file")

RULE_W2 = ("each evaluation is one simulated run of the real receiver against a scripted peer: the scenario is a generated script of wire-level requests "
           "(hand-encoded payloads: arbitrary part order, duplicates, overlaps, truncation, hostile names, wrong credentials), operator calls, crashes and clock jumps; "
           "the tape interleaves request issue, byte delivery on up to 4 concurrent connections, receiver gates and time. distinct = distinct decision-log hash; "
           "non-trivial = at least 3 peer requests were answered and >15 scheduler steps taken")


def w2_progress(r, st):
    return r.get("steps", 0) > 15 and sum(v for k, v in st.items() if k.startswith("peer:")) >= 3


W2_COMPONENTS = {
    "real": ["main.serverApp.init + standardValidator", "http.Server.Serve routes (data, data-recovery, validate, partials, static, internal clean/prune/restart)",
             "payload.NewDecoder / PartDecoder", "stage.Stage (Prepare/Receive/Received/Scan/GetFileStatus, validators, finalizer, cleaner, Recover)", "log.FileIO receive log", "net/http server", "real file system (tmpfs)"],
    "simulated": ["network", "clock", "goroutine interleaving at gates", "receiver crash/restart"],
    "scripted": ["the sending side: a harness peer that encodes the wire format by hand (no sts client code)"],
}

RULE_W4Q = ("each evaluation drives the real queue.Tagged with a pusher task and a popper task on the fake clock; the scenario is a generated list of pushes "
            "(1-6 groups over 1-4 tags with priorities incl. ties, all four orders, chunk sizes, last-file delays, placeholders, late/older files, equal times), pops and sleeps; "
            "the tape interleaves the two tasks call by call and lets time pass. Every Pop is judged against a reference model (ready groups, priority classes, rotation, order, tiling, predecessor). "
            "distinct = distinct decision-log hash; non-trivial = >15 steps")
RULE_W4L = ("each evaluation drives the real log.FileIO (receive and send logs) with 1-4 caller tasks on the fake clock: generated writes, look-ups with windows "
            "(same day, across midnight, across months, reversed, empty), replays and sleeps of seconds to a month, names that are prefixes/substrings of each other or contain ':', "
            "repeated names with different hashes; the tape interleaves the tasks, the logger goroutine's file rotation (open seam) and time. Each answer is judged against a record-list model; "
            "histories of <=40 operations are also checked for linearizability with porcupine. distinct = distinct decision-log hash; non-trivial = >15 steps")


def w4_progress(r, st):
    return r.get("steps", 0) > 15


W4Q_COMPONENTS = {"real": ["queue.Tagged (Push/Pop, groups, tags, delayGroup, allocation)"], "simulated": ["clock", "interleaving of the two caller tasks"],
                  "scripted": ["callers (pusher, popper); files are in-memory descriptors"]}
W4L_COMPONENTS = {"real": ["log.FileIO, rollingFile (rotation, day files, search, Parse) on the real file system"],
                  "simulated": ["clock (day and month roll-overs)", "interleaving of caller tasks and of the logger goroutine at file rotation"],
                  "scripted": ["callers"]}

RULE_ENUM = ("each run index draws a scenario, executes it once without the fault to count the positions it exercises, then re-executes it once per position: %s. "
             "evaluations = executions; distinct = distinct decision-log hash; non-trivial = >20 steps and at least one delivery")

PROPS = {
    # prop: (runs, per-worker wall budget seconds)
    "C01": mk("exploration", RULE_W1, (1600, 45), (40000, 900)),
    "C02": mk("exploration", RULE_W1, (1600, 45), (40000, 900)),
    "C03": mk("exploration", RULE_W1, (1200, 50), (30000, 900)),
    "C05": mk("exploration", RULE_W1, (1600, 45), (40000, 900)),
    "C04": mk("exploration", RULE_W1, (1600, 45), (40000, 900)),
    "C08": mk("exploration", RULE_W1, (1600, 45), (40000, 900)),
    "C10": mk("exploration", RULE_W1, (1600, 45), (40000, 900)),
    "C11": mk("exploration", RULE_W1, (1600, 45), (40000, 900)),
    "C13": mk("exploration", RULE_W1, (1600, 45), (40000, 900)),
    "C06": mk("fault_enumeration", RULE_ENUM % "receiver crash at the k-th occurrence of each labelled durable step (H1 crash points), optionally a second crash during recovery", (48, 50), (1200, 1200)),
    "C07": mk("fault_enumeration", RULE_ENUM % "sender crash before its k-th externally visible action (decorated client.Conf call) or between writing and renaming the queue cache", (48, 50), (1200, 1200)),
    "C09": mk("exploration", RULE_W2, (2400, 45), (60000, 900), nontrivial=w2_progress, components=W2_COMPONENTS),
    "C14": mk("exploration", RULE_W2, (1600, 50), (40000, 900), nontrivial=w2_progress, components=W2_COMPONENTS),
    "C15": mk("exploration", RULE_W2, (1600, 50), (40000, 900), nontrivial=w2_progress, components=W2_COMPONENTS),
    "C12": mk("exploration", RULE_W4Q, (6000, 40), (200000, 600), nontrivial=w4_progress, components=W4Q_COMPONENTS),
    "C17": mk("exploration", RULE_W1, (1600, 45), (40000, 900)),
    "C20": mk("exploration", RULE_W2, (2400, 45), (40000, 900), nontrivial=w2_progress, components=W2_COMPONENTS),
    "C18": mk("exploration", RULE_W4L, (6000, 40), (150000, 600), nontrivial=w4_progress, components=W4L_COMPONENTS),
    "C16": mk("fault_enumeration", RULE_ENUM % "stop request (graceful and immediate) issued at the k-th externally visible sender action, plus the one-shot stop right after start", (48, 50), (1200, 1200)),
}
