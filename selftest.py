"""Determinism self-test: the same (seed, run index) must give the same
decision-log hash in every execution, whatever the process layout,
GOMAXPROCS or machine load. Any divergence is harness trouble (exit 2)."""
import json, os, subprocess, sys, time

PROPS_QUICK = {"C01": 24, "C07": 2, "C06": 2, "C09": 40, "C15": 30, "C12": 60, "C18": 60, "C16": 2, "C03": 16}
PROPS_THOROUGH = {"C01": 120, "C02": 80, "C03": 60, "C04": 60, "C05": 60, "C06": 6, "C07": 6, "C08": 60, "C09": 200, "C10": 60,
                  "C11": 60, "C12": 300, "C13": 60, "C14": 100, "C15": 100, "C16": 6, "C17": 60, "C18": 300, "C20": 100}


def run_layout(binp, workdir, env, prop, seed, runs, nshard, gomaxprocs, tag):
    procs = []
    outs = []
    e = dict(env, GOMAXPROCS=str(gomaxprocs))
    for i in range(nshard):
        out = os.path.join(workdir, "st-%s-%s-%d.jsonl" % (prop, tag, i))
        outs.append(out)
        cmd = [binp, "-test.run", "^TestSim$", "-test.timeout", "0", "-sim.prop", prop, "-sim.tier", "quick", "-sim.seed", str(seed),
               "-sim.shard", "%d/%d" % (i, nshard), "-sim.runs", str(runs), "-sim.out", out, "-sim.ws", os.path.join(workdir, "ws-" + tag),
               "-sim.min=false"]
        procs.append(subprocess.Popen(cmd, cwd=workdir, env=e, stdout=subprocess.DEVNULL, stderr=subprocess.DEVNULL))
    return procs, outs


def collect(outs):
    res = {}
    for o in outs:
        if not os.path.exists(o):
            continue
        for line in open(o):
            try:
                r = json.loads(line)
            except Exception:
                continue
            res[(r["prop"], r["index"], r.get("sub", ""))] = (r["dhash"], r["steps"], len(r.get("viol") or []))
    return res


def run(binp, workdir, tier, seed):
    from runner import ENV
    props = PROPS_QUICK if tier == "quick" else PROPS_THOROUGH
    layouts = [(16, 1, "a"), (4, 4, "b"), (1, 16, "c"), (16, 16, "d"), (2, 2, "e"), (8, 1, "f")]
    t0 = time.time()
    total = 0
    diverged = []
    for prop, runs in props.items():
        # all layouts of one property at the same time: the machine is loaded while they run
        running = []
        for (ns, gmp, tag) in layouts:
            procs, outs = run_layout(binp, workdir, ENV, prop, seed, runs, ns, gmp, tag)
            running.append((procs, outs, tag))
        results = {}
        for procs, outs, tag in running:
            for p in procs:
                p.wait()
            results[tag] = collect(outs)
        base = results["a"]
        total += len(base) * len(layouts)
        for tag, res in results.items():
            for k, v in base.items():
                if k not in res:
                    diverged.append("%s: missing in layout %s" % (k, tag))
                elif res[k] != v:
                    diverged.append("%s: layout a %s vs layout %s %s" % (k, v, tag, res[k]))
        print("selftest %s: %d runs x %d layouts, %d divergences so far" % (prop, len(base), len(layouts), len(diverged)), flush=True)
    wall = time.time() - t0
    ev = {
        "what": "determinism self-test", "tier": tier, "seed": seed, "executions": total, "layouts": [
            {"processes": ns, "GOMAXPROCS": g} for ns, g, _ in layouts], "divergences": diverged[:20], "wall_s": round(wall, 1),
    }
    os.makedirs(os.path.join(os.path.dirname(os.path.abspath(__file__)), "evidence"), exist_ok=True)
    json.dump(ev, open(os.path.join(os.path.dirname(os.path.abspath(__file__)), "evidence", "selftest-determinism.json"), "w"), indent=1)
    if diverged:
        for d in diverged[:10]:
            print("DIVERGENCE", d)
        print("determinism self-test FAILED: %d divergences in %d executions" % (len(diverged), total))
        return 2
    print("determinism self-test ok: %d executions (%d layouts), 0 divergences, %.0fs" % (total, len(layouts), wall))
    return 0
