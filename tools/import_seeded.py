#!/usr/bin/env python3
"""Copy confirmed seeded changes (made by sub-agents in scratch worktrees) into
/verif/seeded/<id>/ and record which checks caught them.

  import_seeded.py <mutants-out-dir> <sweep-result-dir>

<mutants-out-dir>/<id>/ holds patch.diff, meta.json, demo files written by the
sub-agent; <sweep-result-dir>/<id>.txt holds the lines written by the sweep
(`<id> <prop> rc=<n> <k> violations: ...`).
"""
import json, os, re, shutil, sys

VERIF = os.path.dirname(os.path.dirname(os.path.abspath(__file__)))


def main():
    src, res = sys.argv[1], sys.argv[2]
    rows = []
    for mid in sorted(os.listdir(src)):
        d = os.path.join(src, mid)
        if not os.path.isfile(os.path.join(d, "patch.diff")):
            continue
        meta = {}
        try:
            meta = json.load(open(os.path.join(d, "meta.json")))
        except Exception:
            pass
        caught, ran = [], []
        rf = os.path.join(res, mid + ".txt")
        status = "not swept"
        if os.path.exists(rf):
            txt = open(rf).read()
            status = "swept"
            if "APPLY-FAILED" in txt:
                status = "patch no longer applies to the repaired tree"
            if "BUILD-FAILED" in txt:
                status = "does not build on the repaired tree"
            for m in re.finditer(r"^%s (C\d\d) rc=(\d+) (\d+) violations: (.*)$" % re.escape(mid), txt, re.M):
                prop, rc, nv, what = m.group(1), int(m.group(2)), int(m.group(3)), m.group(4)
                ran.append("./check %s quick -> exit %d" % (prop, rc))
                if rc == 1:
                    oracles = sorted(set(re.findall(r"oracle=([\w-]+)", what)))
                    caught.append({"check": prop, "oracles": oracles})
        out = os.path.join(VERIF, "seeded", mid)
        os.makedirs(out, exist_ok=True)
        for fn in os.listdir(d):
            p = os.path.join(d, fn)
            if os.path.isfile(p) and os.path.getsize(p) < 200000 and fn != "meta.json":
                shutil.copy(p, os.path.join(out, fn))
        m2 = {
            "property": meta.get("property", mid.split("-")[0]),
            "what_it_changes": meta.get("summary", ""),
            "what_it_needs_to_manifest": meta.get("needs", ""),
            "files": meta.get("files", []),
            "demonstration": meta.get("demo_cmd", ""),
            "demonstration_notes": meta.get("demo_notes", ""),
            "author_verified": meta.get("verified", {}),
            "sweep_status": status,
            "what_was_run": ["git apply patch.diff (scratch worktree of /repo HEAD)", "go build ./..."] + ran,
            "caught_by": caught,
        }
        json.dump(m2, open(os.path.join(out, "meta.json"), "w"), indent=1)
        rows.append((mid, m2["property"], status, caught))
    for mid, prop, status, caught in rows:
        c = ", ".join("%s (%s)" % (x["check"], "/".join(x["oracles"][:2])) for x in caught) or "—"
        print("| %s | %s | %s | %s |" % (mid, prop, status, c))


if __name__ == "__main__":
    main()
