// maporder rewrites every `for ... := range <map with ordered key>` in the
// non-test sources of the listed packages of /repo into
// `for ... := range fileutil.VerifOrdered(<map>)` and writes the rewritten
// copies into an output directory, printing "orig\tcopy" lines for the build
// overlay. /repo itself is not touched.
package main

import (
	"fmt"
	"go/ast"
	"go/token"
	"go/types"
	"os"
	"path/filepath"
	"sort"
	"strings"

	"golang.org/x/tools/go/packages"
)

type edit struct {
	off  int
	text string
}

func main() {
	if len(os.Args) < 4 {
		fmt.Fprintln(os.Stderr, "usage: maporder <repo> <outdir> <pkg>...")
		os.Exit(2)
	}
	repo, out := os.Args[1], os.Args[2]
	cfg := &packages.Config{
		Mode: packages.NeedName | packages.NeedFiles | packages.NeedSyntax | packages.NeedTypes | packages.NeedTypesInfo | packages.NeedImports | packages.NeedDeps,
		Dir:  repo,
		Env:  os.Environ(),
		BuildFlags: []string{"-tags=verif"},
	}
	pkgs, err := packages.Load(cfg, os.Args[3:]...)
	if err != nil {
		fmt.Fprintln(os.Stderr, "load:", err)
		os.Exit(2)
	}
	bad := false
	nSites := 0
	nLock := 0
	for _, p := range pkgs {
		for _, e := range p.Errors {
			fmt.Fprintln(os.Stderr, "pkg error:", e)
			bad = true
		}
		for _, f := range p.Syntax {
			fname := p.Fset.File(f.Pos()).Name()
			if strings.HasSuffix(fname, "_test.go") || !strings.HasPrefix(fname, repo) {
				continue
			}
			var edits []edit
			ast.Inspect(f, func(n ast.Node) bool {
				rs, ok := n.(*ast.RangeStmt)
				if !ok {
					return true
				}
				tv, ok := p.TypesInfo.Types[rs.X]
				if !ok {
					return true
				}
				m, ok := tv.Type.Underlying().(*types.Map)
				if !ok {
					return true
				}
				b, ok := m.Key().Underlying().(*types.Basic)
				if !ok || b.Info()&(types.IsOrdered) == 0 {
					fmt.Fprintf(os.Stderr, "maporder: skipped (unordered key) %s\n", p.Fset.Position(rs.Pos()))
					return true
				}
				fn := "fileutil.VerifOrdered("
				if p.PkgPath == "github.com/arm-doe/sts/fileutil" {
					fn = "VerifOrdered("
				}
				edits = append(edits, edit{p.Fset.Position(rs.X.Pos()).Offset, fn})
				edits = append(edits, edit{p.Fset.Position(rs.X.End()).Offset, ")"})
				nSites++
				fmt.Fprintf(os.Stderr, "maporder: site %s\n", strings.TrimPrefix(p.Fset.Position(rs.Pos()).String(), repo+"/"))
				return true
			})
			src, err := os.ReadFile(fname)
			if err != nil {
				fmt.Fprintln(os.Stderr, err)
				os.Exit(2)
			}
			// second rewrite, package stage only: a scheduling point in front of
			// every acquisition of a per-file lock (`x := s.getPathLock(arg)` ...
			// `x.Lock()` / `x.RLock()`), so that whatever the code does before it
			// takes the lock can be interleaved with other holders. It follows the
			// source as it is: work moved out of a critical section ends up on the
			// far side of the scheduling point.
			if strings.HasSuffix(p.PkgPath, "/stage") {
				ast.Inspect(f, func(n ast.Node) bool {
					fd, ok := n.(*ast.FuncDecl)
					if !ok || fd.Body == nil {
						return true
					}
					// files are handed to the finalize goroutine by short-lived
					// goroutines (`go s.finalizeQueue(f)`); several of them woken by
					// timers of the same instant would race for the channel: each one
					// gets a gate, so the order is the scheduler's
					if (fd.Name.Name == "finalizeQueue" || fd.Name.Name == "processQueue") && fd.Type.Params != nil && len(fd.Type.Params.List) == 1 && len(fd.Type.Params.List[0].Names) == 1 {
						arg := fd.Type.Params.List[0].Names[0].Name
						lab := map[string]string{"finalizeQueue": "stage.finalize.queue", "processQueue": "stage.process.queue"}[fd.Name.Name]
						edits = append(edits, edit{p.Fset.Position(fd.Body.Lbrace).Offset + 1, " fileutil.VerifPoint(\"" + lab + "\", " + arg + ".path); "})
						nLock++
						fmt.Fprintf(os.Stderr, "maporder: lock site %s\n", strings.TrimPrefix(p.Fset.Position(fd.Pos()).String(), repo+"/"))
					}
					args := map[string]string{}
					ast.Inspect(fd.Body, func(m ast.Node) bool {
						as, ok := m.(*ast.AssignStmt)
						if !ok || len(as.Lhs) != 1 || len(as.Rhs) != 1 {
							return true
						}
						id, ok := as.Lhs[0].(*ast.Ident)
						call, ok2 := as.Rhs[0].(*ast.CallExpr)
						if !ok || !ok2 || len(call.Args) != 1 {
							return true
						}
						if sel, ok := call.Fun.(*ast.SelectorExpr); ok && sel.Sel.Name == "getPathLock" {
							a := call.Args[0]
							args[id.Name] = string(src[p.Fset.Position(a.Pos()).Offset:p.Fset.Position(a.End()).Offset])
						}
						return true
					})
					if len(args) == 0 {
						return false
					}
					ast.Inspect(fd.Body, func(m ast.Node) bool {
						es, ok := m.(*ast.ExprStmt)
						if !ok {
							return true
						}
						call, ok := es.X.(*ast.CallExpr)
						if !ok || len(call.Args) != 0 {
							return true
						}
						sel, ok := call.Fun.(*ast.SelectorExpr)
						if !ok || (sel.Sel.Name != "Lock" && sel.Sel.Name != "RLock") {
							return true
						}
						id, ok := sel.X.(*ast.Ident)
						if !ok {
							return true
						}
						if arg, ok := args[id.Name]; ok {
							edits = append(edits, edit{p.Fset.Position(es.Pos()).Offset, "fileutil.VerifPoint(\"stage.pathlock\", " + arg + "); "})
							nLock++
							fmt.Fprintf(os.Stderr, "maporder: lock site %s\n", strings.TrimPrefix(p.Fset.Position(es.Pos()).String(), repo+"/"))
						}
						return true
					})
					return false
				})
			}
			// third rewrite, package cache only: a scheduling point in front of
			// every `x.mutex.Lock()` of the sender's file cache, for the same
			// reason (a check made before the lock is taken can then be
			// overtaken by the scanner or the validator)
			if strings.HasSuffix(p.PkgPath, "/cache") {
				ast.Inspect(f, func(n ast.Node) bool {
					es, ok := n.(*ast.ExprStmt)
					if !ok {
						return true
					}
					call, ok := es.X.(*ast.CallExpr)
					if !ok || len(call.Args) != 0 {
						return true
					}
					sel, ok := call.Fun.(*ast.SelectorExpr)
					if !ok || sel.Sel.Name != "Lock" {
						return true
					}
					inner, ok := sel.X.(*ast.SelectorExpr)
					if !ok || inner.Sel.Name != "mutex" {
						return true
					}
					recv, ok := inner.X.(*ast.Ident)
					if !ok {
						return true
					}
					edits = append(edits, edit{p.Fset.Position(es.Pos()).Offset, "fileutil.VerifPoint(\"cache.lock\", " + recv.Name + ".path); "})
					nLock++
					fmt.Fprintf(os.Stderr, "maporder: lock site %s\n", strings.TrimPrefix(p.Fset.Position(es.Pos()).String(), repo+"/"))
					return true
				})
			}
			if len(edits) == 0 {
				continue
			}
			// import fileutil if needed
			needImport := p.PkgPath != "github.com/arm-doe/sts/fileutil"
			if needImport {
				for _, im := range f.Imports {
					if im.Path.Value == `"github.com/arm-doe/sts/fileutil"` && im.Name == nil {
						needImport = false
					}
				}
			}
			if needImport {
				// insert right after the package clause
				off := p.Fset.Position(f.Name.End()).Offset
				edits = append(edits, edit{off, "; import \"github.com/arm-doe/sts/fileutil\""})
			}
			sort.SliceStable(edits, func(a, b int) bool { return edits[a].off > edits[b].off })
			s := string(src)
			for _, e := range edits {
				s = s[:e.off] + e.text + s[e.off:]
			}
			rel, _ := filepath.Rel(repo, fname)
			dst := filepath.Join(out, strings.ReplaceAll(rel, "/", "__"))
			if err := os.WriteFile(dst, []byte(s), 0644); err != nil {
				fmt.Fprintln(os.Stderr, err)
				os.Exit(2)
			}
			fmt.Printf("%s\t%s\n", fname, dst)
		}
	}
	_ = token.NoPos
	if bad {
		os.Exit(2)
	}
	fmt.Fprintf(os.Stderr, "maporder: %d sites rewritten\n", nSites)
	fmt.Fprintf(os.Stderr, "maporder: %d lock sites instrumented\n", nLock)
}
