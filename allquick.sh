#!/bin/bash
# development helper: every quick check for the given seeds, one line per check
cd "$(dirname "$0")"
for seed in "$@"; do
  for p in $(python3 -c "import json;print(' '.join(c['property_id'] for c in json.load(open('MANIFEST.json'))['checks']))"); do
    out=$(VERIF_SEED=$seed ./check $p quick 2>&1); rc=$?
    echo "seed=$seed $p exit=$rc $(echo "$out" | grep -c '^VIOLATION') violations"
    echo "$out" | grep "^violation\|^VIOLATION\|trouble\|inconclusive" | cut -c1-400
  done
done
